#!/bin/bash
# Entry point of every MANIFEST command:  vcheck.sh <ID> <quick|thorough>  |  vcheck.sh replay <witness>  |  vcheck.sh build
set -u
cd "$(dirname "$0")"
VERIF="$(pwd)"
export GOFLAGS=-mod=mod GOPROXY=off GOSUMDB=off GOTOOLCHAIN=local
export GOCACHE="${GOCACHE:-$HOME/.cache/go-build}"
REPO="${VERIF_REPO:-/repo}"

build() {  # $1 = race|norace
  mkdir -p "$VERIF/bin"
  cp "$REPO/go.sum" "$VERIF/harness/go.sum" || return 3
  (
    cd "$VERIF/harness" || exit 3
    # serialise concurrent builds of the same output
    exec 9>"$VERIF/bin/.lock.$1"
    flock 9
    if [ "$1" = race ]; then
      go build -race -tags verif -o "$VERIF/bin/vcheck.race" ./cmd/vcheck
    else
      go build -tags verif -o "$VERIF/bin/vcheck" ./cmd/vcheck
    fi
  ) || { echo "BUILD FAILED ($1): the harness does not build against $REPO"; return 3; }
}

case "${1:-}" in
  build)
    build norace || exit 3
    build race || exit 3
    ;;
  replay)
    build norace || exit 3
    build race || exit 3
    exec "$VERIF/bin/vcheck" replay -verif "$VERIF" "$2"
    ;;
  C*)
    ID="$1"; TIER="${2:-${VERIF_TIER:-quick}}"
    build norace || exit 3
    if [ "$ID" = C15 ]; then build race || exit 3; fi
    exec "$VERIF/bin/vcheck" run -verif "$VERIF" -prop "$ID" -tier "$TIER" -seed "${VERIF_SEED:-1}"
    ;;
  *)
    echo "usage: $0 <ID> <quick|thorough> | replay <witness> | build"; exit 3;;
esac

package core

import (
	"fmt"
	"os"
	"path/filepath"
	"regexp"
	"sort"
	"strings"
)

var lineNoRe = regexp.MustCompile(`:\d+( \+0x[0-9a-f]+)?$`)

type raceStack struct {
	funcs []string
}

func parseRaceBlock(blk string) (stacks []raceStack) {
	lines := strings.Split(blk, "\n")
	repo := os.Getenv("VERIF_REPO")
	if repo == "" {
		repo = "/repo"
	}
	var cur *raceStack
	for li, l := range lines {
		switch {
		case strings.HasPrefix(l, "Write at "), strings.HasPrefix(l, "Read at "),
			strings.HasPrefix(l, "Previous write at "), strings.HasPrefix(l, "Previous read at "),
			strings.HasPrefix(l, "Atomic write at "), strings.HasPrefix(l, "Previous atomic write at "),
			strings.HasPrefix(l, "Atomic read at "), strings.HasPrefix(l, "Previous atomic read at "):
			stacks = append(stacks, raceStack{})
			cur = &stacks[len(stacks)-1]
		case strings.HasPrefix(l, "Goroutine "):
			cur = nil
		case cur != nil && strings.HasPrefix(l, "  ") && !strings.HasPrefix(l, "      "):
			f := strings.TrimSpace(l)
			if k := strings.LastIndex(f, "("); k > 0 {
				f = f[:k]
			}
			// a closure of the library inlined into harness code is named after the harness
			// function; its source position tells whose code it is
			if !isGoatFunc(f) && li+1 < len(lines) {
				file := strings.TrimSpace(lines[li+1])
				if strings.HasPrefix(file, repo+"/") && !strings.HasPrefix(file, repo+"/gen/") {
					f = "github.com/avos-io/goat.(inlined)/" + f
				}
			}
			cur.funcs = append(cur.funcs, f)
		}
	}
	return
}

func isGoatFunc(f string) bool {
	return strings.HasPrefix(f, "github.com/avos-io/goat") && !strings.HasPrefix(f, "github.com/avos-io/goat/gen/")
}

// ownerFrame is the first frame of an access stack that belongs neither to the standard
// library nor to a third-party module: the code whose memory access this is.
//
// One exception: the harness transport reading or cloning an envelope inside a Write or Read that
// library code called (wire.(*End).Write, wire.(*Tap).add, ...) is the transport doing what the
// RpcReadWriter API lets every transport do - look at the envelope while the call lasts. Such an
// access is attributed to the library frame that made the call: if it conflicts with another
// library access, the library shared an envelope it had handed to a transport.
func ownerFrame(s raceStack) string {
	for i, f := range s.funcs {
		if strings.HasPrefix(f, "goatverif/wire.(*End).Write") || strings.HasPrefix(f, "goatverif/wire.(*End).Read") || strings.HasPrefix(f, "goatverif/wire.(*Tap).add") {
			for _, g := range s.funcs[i+1:] {
				if isGoatFunc(g) {
					return g
				}
				if strings.HasPrefix(g, "goatverif/") && !strings.HasPrefix(g, "goatverif/wire.") {
					break
				}
			}
			return f
		}
		if isGoatFunc(f) || strings.HasPrefix(f, "goatverif/") || strings.HasPrefix(f, "main.") {
			return f
		}
	}
	return ""
}

func outermostGoat(s raceStack) string {
	for i := len(s.funcs) - 1; i >= 0; i-- {
		if isGoatFunc(s.funcs[i]) {
			return s.funcs[i]
		}
	}
	return ""
}

func innermostGoat(s raceStack) string {
	for _, f := range s.funcs {
		if isGoatFunc(f) {
			return f
		}
	}
	return ""
}

// foldRaceLogs reads the race detector's log files, de-duplicates reports and
// turns each distinct report with a goat frame into a violation.
func foldRaceLogs(a *agg, verifDir, propID string, seed int64) (raw, distinctGoat, harnessOnly int) {
	seen := map[string]bool{}
	for _, prefix := range a.raceLogs {
		files, _ := filepath.Glob(prefix + ".*")
		for _, f := range files {
			b, err := os.ReadFile(f)
			if err != nil {
				continue
			}
			for _, blk := range strings.Split(string(b), "==================") {
				if !strings.Contains(blk, "WARNING: DATA RACE") {
					continue
				}
				raw++
				st := parseRaceBlock(blk)
				var inner, outer []string
				goatOwners, harnessOwners := 0, 0
				for _, s := range st {
					o := ownerFrame(s)
					switch {
					case isGoatFunc(o):
						goatOwners++
						inner = append(inner, o)
						outer = append(outer, outermostGoat(s))
					case o != "":
						harnessOwners++
						inner = append(inner, o)
						outer = append(outer, s.funcs[len(s.funcs)-1])
					case len(s.funcs) > 0:
						inner = append(inner, s.funcs[0])
						outer = append(outer, s.funcs[len(s.funcs)-1])
					}
				}
				// both accesses made by library code: the library's race. An access made by harness
				// code (even when called from the library, e.g. a transport or a handler) makes it a
				// harness bug, which fails the run instead of being blamed on the library.
				goat := goatOwners > 0 && harnessOwners == 0
				sort.Strings(inner)
				key := "race@" + strings.Join(inner, "|")
				if !goat {
					harnessOnly++
					if !seen[key] {
						seen[key] = true
						keep := filepath.Join(verifDir, "replays", fmt.Sprintf("%s-s%d-harness-race-%d.txt", propID, seed, harnessOnly))
						os.WriteFile(keep, []byte(blk), 0o644)
						a.broken = append(a.broken, "race report without a goat frame (harness bug): "+key+" ["+keep+"]")
					}
					continue
				}
				if seen[key] {
					continue
				}
				seen[key] = true
				distinctGoat++
				keep := filepath.Join(verifDir, "replays", fmt.Sprintf("%s-s%d-race-%d.txt", propID, seed, distinctGoat))
				os.WriteFile(keep, []byte(blk), 0o644)
				a.viol = append(a.viol, caseViolation{-1, Violation{Key: key, Msg: "data race reported by the race detector; entry points " + strings.Join(outer, " vs "), Detail: map[string]any{"report": keep}}})
			}
			os.Remove(f)
		}
	}
	return
}

// Package core is the parent/child driver: it runs a property's case list in
// child processes, folds the results into evidence and decides the exit code.
package core

import (
	"bufio"
	"bytes"
	"encoding/json"
	"fmt"
	"hash/fnv"
	"os"
	"os/exec"
	"path/filepath"
	"regexp"
	"runtime"
	"sort"
	"strconv"
	"strings"
	"sync"
	"sync/atomic"
	"syscall"
	"time"
)

const (
	Held         = "held"
	Violated     = "violated"
	Inconclusive = "inconclusive"
)

type Violation struct {
	Key    string `json:"key"`
	Msg    string `json:"msg"`
	Detail any    `json:"detail,omitempty"`
}

type Result struct {
	Idx        int                 `json:"idx"`
	Verdict    string              `json:"verdict"`
	Sig        string              `json:"sig,omitempty"`
	NonTrivial bool                `json:"nt,omitempty"`
	Evals      int64               `json:"evals,omitempty"`       // executions inside this case (default 1)
	DistinctNT int64               `json:"distinct_nt,omitempty"` // pre-counted distinct non-trivial cases of a disjoint batch
	Stats      map[string]int64    `json:"stats,omitempty"`
	Sets       map[string][]string `json:"sets,omitempty"` // named sets, unioned by the parent (bounded)
	Sample     any                 `json:"sample,omitempty"`
	Violations []Violation         `json:"violations,omitempty"`
	Note       string              `json:"note,omitempty"`
	Retire     bool                `json:"retire,omitempty"`
}

func (r *Result) Stat(k string, d int64) {
	if r.Stats == nil {
		r.Stats = map[string]int64{}
	}
	r.Stats[k] += d
}

func (r *Result) StatMax(k string, v int64) {
	if r.Stats == nil {
		r.Stats = map[string]int64{}
	}
	if v > r.Stats[k] {
		r.Stats[k] = v
	}
}

func (r *Result) SetAdd(set, v string) {
	if r.Sets == nil {
		r.Sets = map[string][]string{}
	}
	for _, x := range r.Sets[set] {
		if x == v {
			return
		}
	}
	if len(r.Sets[set]) < 64 {
		r.Sets[set] = append(r.Sets[set], v)
	}
}

func (r *Result) Violate(key, format string, a ...any) {
	r.Verdict = Violated
	r.Violations = append(r.Violations, Violation{Key: key, Msg: fmt.Sprintf(format, a...)})
}

func (r *Result) ViolateD(key string, detail any, format string, a ...any) {
	r.Verdict = Violated
	r.Violations = append(r.Violations, Violation{Key: key, Msg: fmt.Sprintf(format, a...), Detail: detail})
}

type Prop struct {
	ID    string
	Level string // exploration | fault_enumeration
	Rule  string
	Race  bool
	// Plan returns the number of cases of the tier; the list is a function of
	// (tier, seed) only.
	Plan func(tier string, seed int64) int
	// Run executes case idx in a child process.
	Run func(tier string, seed int64, idx int) *Result
	// Exhaustive, if set, reports that the tier enumerates a finite space completely.
	Exhaustive  func(tier string) bool
	Assumptions []string
	// MaxStatKeys lists stats folded with max instead of sum.
	MaxStats []string
	// Watchdog for the whole run.
	Budget func(tier string) time.Duration
	// RequiredStats: the run is broken (exit 3) if any of these counters is 0.
	RequiredStats func(tier string) []string
	Workers       int
	// ThoroughRounds > 1 makes the thorough tier run the whole case list that many times; round r
	// uses seed + r*100003, i.e. other PRNG draws where the cases are generated and other yield /
	// sleep plans at the hook points everywhere. Only for properties whose case list does not
	// depend on the seed.
	ThoroughRounds int
}

var registry = map[string]*Prop{}

func Register(p *Prop)    { registry[p.ID] = p }
func Get(id string) *Prop { return registry[id] }
func IDs() []string {
	var ids []string
	for k := range registry {
		ids = append(ids, k)
	}
	sort.Strings(ids)
	return ids
}

// ---------------------------------------------------------------- child

var caseStart atomic.Int64

// CaseBudget is the wall-clock time one case may take inside a child before the child gives
// up (exit code 4, goroutine dump on stderr): the driver goroutine itself is stuck, e.g. inside
// a library call that never returns.  The parent records that case as inconclusive.
var CaseBudget = 90 * time.Second

func caseWatchdog() {
	for {
		time.Sleep(time.Second)
		st := caseStart.Load()
		if st != 0 && time.Since(time.Unix(0, st)) > CaseBudget {
			buf := make([]byte, 4<<20)
			n := runtime.Stack(buf, true)
			fmt.Fprintf(os.Stderr, "CASE-WATCHDOG: case exceeded %v\n%s\n", CaseBudget, buf[:n])
			os.Exit(4)
		}
	}
}

var cursorFile *os.File

// Cursor records (cheaply, overwriting) what the child is about to do inside
// the current case, so that a crash can be attributed to an exact input.
func Cursor(s string) {
	if cursorFile == nil {
		return
	}
	b := make([]byte, 512)
	copy(b, s)
	cursorFile.WriteAt(b, 0)
}

func ChildMain(propID, tier string, seed int64, start, stride, n int, out string) int {
	p := Get(propID)
	if p == nil {
		fmt.Fprintln(os.Stderr, "unknown property", propID)
		return 3
	}
	f, err := os.OpenFile(out, os.O_APPEND|os.O_CREATE|os.O_WRONLY, 0o644)
	if err != nil {
		fmt.Fprintln(os.Stderr, err)
		return 3
	}
	defer f.Close()
	cursorFile, _ = os.OpenFile(out+".cur", os.O_CREATE|os.O_RDWR|os.O_TRUNC, 0o644)
	go caseWatchdog()
	for idx := start; idx < n; idx += stride {
		caseStart.Store(time.Now().UnixNano())
		Cursor("")
		fmt.Fprintf(f, "BEGIN %d\n", idx)
		var res *Result
		for attempt := 0; attempt < 3; attempt++ {
			if plan := p.Plan(tier, seed); rounds(p, tier) > 1 && plan > 0 {
				res = p.Run(tier, seed+int64(idx/plan)*100003, idx%plan)
			} else {
				res = p.Run(tier, seed, idx)
			}
			if res.Verdict != Inconclusive {
				break
			}
		}
		res.Idx = idx
		b, err := json.Marshal(res)
		if err != nil {
			fmt.Fprintf(os.Stderr, "marshal result: %v\n", err)
			return 3
		}
		f.Write(append(append([]byte("END "), b...), '\n'))
		if res.Retire {
			return 0
		}
	}
	return 0
}

// ---------------------------------------------------------------- parent

type KnownFindings struct {
	Known []struct {
		Property string `json:"property"`
		Key      string `json:"key"`
		What     string `json:"what"`
	} `json:"known"`
	Fixed []struct {
		Property string `json:"property"`
		Commit   string `json:"commit"`
		What     string `json:"what"`
	} `json:"fixed"`
}

type Options struct {
	VerifDir string
	Bin      string // child binary
	RaceBin  string
	Tier     string
	Seed     int64
	Only     int // run only this case index (replay) if >=0
	Repeat   int
}

type agg struct {
	mu       sync.Mutex
	results  int
	evals    int64
	sigs     map[uint64]struct{}
	distinct int64
	stats    map[string]int64
	sets     map[string]map[string]struct{}
	samples  []any
	incon    int
	viol     []caseViolation
	crashes  int
	broken   []string
	maxStats map[string]bool
	raceLogs []string
}

type caseViolation struct {
	Idx int
	V   Violation
}

func h64(s string) uint64 {
	h := fnv.New64a()
	h.Write([]byte(s))
	return h.Sum64()
}

func (a *agg) fold(r *Result) {
	a.mu.Lock()
	defer a.mu.Unlock()
	a.results++
	if r.Evals > 0 {
		a.evals += r.Evals
	} else {
		a.evals++
	}
	if r.NonTrivial && r.Sig != "" {
		k := h64(r.Sig)
		if _, ok := a.sigs[k]; !ok {
			a.sigs[k] = struct{}{}
			a.distinct++
		}
	}
	a.distinct += r.DistinctNT
	for k, v := range r.Stats {
		if a.maxStats[k] {
			if v > a.stats[k] {
				a.stats[k] = v
			}
		} else {
			a.stats[k] += v
		}
	}
	for k, vs := range r.Sets {
		m := a.sets[k]
		if m == nil {
			m = map[string]struct{}{}
			a.sets[k] = m
		}
		for _, v := range vs {
			if len(m) < 4096 {
				m[v] = struct{}{}
			}
		}
	}
	if r.Sample != nil && len(a.samples) < 4 {
		a.samples = append(a.samples, r.Sample)
	}
	switch r.Verdict {
	case Inconclusive:
		a.incon++
		if len(a.broken) < 5 {
			a.broken = append(a.broken, fmt.Sprintf("case %d inconclusive: %s", r.Idx, r.Note))
		}
	case Violated:
		for _, v := range r.Violations {
			a.viol = append(a.viol, caseViolation{r.Idx, v})
		}
		if len(a.samples) < 8 && r.Sample != nil {
			a.samples = append(a.samples, map[string]any{"violating_case": r.Sample})
		}
	}
}

var goatFrameRe = regexp.MustCompile(`(?m)^(github\.com/avos-io/goat.*)\([^()]*\)$`)

// classifyCrash looks at a child's stderr after an abnormal exit.
func classifyCrash(stderr string) (goat bool, key, head string) {
	i := strings.Index(stderr, "panic: ")
	j := strings.Index(stderr, "fatal error: ")
	if i < 0 || (j >= 0 && j < i) {
		i = j
	}
	if i < 0 {
		return false, "", firstLines(stderr, 6)
	}
	rest := stderr[i:]
	head = firstLines(rest, 3)
	// first goroutine block = the panicking goroutine
	k := strings.Index(rest, "\ngoroutine ")
	if k < 0 {
		return false, "", head
	}
	blk := rest[k+1:]
	if e := strings.Index(blk, "\n\n"); e >= 0 {
		blk = blk[:e]
	}
	for _, m := range goatFrameRe.FindAllStringSubmatch(blk, -1) {
		if strings.HasPrefix(m[1], "github.com/avos-io/goat/gen/") {
			continue
		}
		return true, "crash@" + m[1], head
	}
	return false, "", head
}

func firstLines(s string, n int) string {
	ls := strings.SplitN(s, "\n", n+1)
	if len(ls) > n {
		ls = ls[:n]
	}
	return strings.Join(ls, " | ")
}

func rounds(p *Prop, tier string) int {
	if tier == "thorough" && p.ThoroughRounds > 1 {
		return p.ThoroughRounds
	}
	return 1
}

func RunParent(p *Prop, o Options) int {
	t0 := time.Now()
	n := p.Plan(o.Tier, o.Seed) * rounds(p, o.Tier)
	work := filepath.Join(o.VerifDir, "work", fmt.Sprintf("%s-%s-%d", p.ID, o.Tier, os.Getpid()))
	os.RemoveAll(work)
	if err := os.MkdirAll(work, 0o755); err != nil {
		fmt.Fprintln(os.Stderr, err)
		return 3
	}
	defer os.RemoveAll(work)

	a := &agg{sigs: map[uint64]struct{}{}, stats: map[string]int64{}, sets: map[string]map[string]struct{}{}, maxStats: map[string]bool{}}
	for _, k := range p.MaxStats {
		a.maxStats[k] = true
	}

	workers := runtime.NumCPU()
	if p.Workers > 0 {
		workers = p.Workers
	}
	if workers > n {
		workers = n
	}
	if workers < 1 {
		workers = 1
	}
	bin := o.Bin
	if p.Race {
		bin = o.RaceBin
	}
	budget := 20 * time.Minute
	if p.Budget != nil {
		budget = p.Budget(o.Tier)
	}
	deadline := time.Now().Add(budget)

	var wg sync.WaitGroup
	runStripe := func(w, start, stride, limit int) {
		defer wg.Done()
		next := start
		spawn := 0
		for next < limit {
			spawn++
			out := filepath.Join(work, fmt.Sprintf("w%d-%d.out", w, spawn))
			errf := filepath.Join(work, fmt.Sprintf("w%d-%d.err", w, spawn))
			ef, _ := os.Create(errf)
			cmd := exec.Command(bin, "child", "-prop", p.ID, "-tier", o.Tier, "-seed", strconv.FormatInt(o.Seed, 10),
				"-start", strconv.Itoa(next), "-stride", strconv.Itoa(stride), "-n", strconv.Itoa(limit), "-out", out)
			cmd.Stderr = ef
			cmd.Stdout = ef
			env := append(os.Environ(), "GOTRACEBACK=all")
			if p.Race {
				rl := filepath.Join(work, fmt.Sprintf("race-w%d-%d", w, spawn))
				env = append(env, "GORACE=halt_on_error=0 history_size=5 log_path="+rl)
				a.mu.Lock()
				a.raceLogs = append(a.raceLogs, rl)
				a.mu.Unlock()
			}
			cmd.Env = env
			if err := cmd.Start(); err != nil {
				a.mu.Lock()
				a.broken = append(a.broken, "cannot start child: "+err.Error())
				a.mu.Unlock()
				ef.Close()
				return
			}
			done := make(chan error, 1)
			go func() { done <- cmd.Wait() }()
			var werr error
			timedOut := false
			select {
			case werr = <-done:
			case <-time.After(time.Until(deadline)):
				timedOut = true
				cmd.Process.Signal(syscall.SIGQUIT)
				select {
				case werr = <-done:
				case <-time.After(10 * time.Second):
					cmd.Process.Kill()
					werr = <-done
				}
			}
			ef.Close()
			// fold what the child wrote
			lastBegin, lastEnd := -1, -1
			if f, err := os.Open(out); err == nil {
				sc := bufio.NewScanner(f)
				sc.Buffer(make([]byte, 1<<20), 1<<28)
				for sc.Scan() {
					line := sc.Text()
					if strings.HasPrefix(line, "BEGIN ") {
						lastBegin, _ = strconv.Atoi(line[6:])
					} else if strings.HasPrefix(line, "END ") {
						var r Result
						if err := json.Unmarshal([]byte(line[4:]), &r); err == nil {
							a.fold(&r)
							lastEnd = r.Idx
						}
					}
				}
				f.Close()
			}
			os.Remove(out)
			defer os.Remove(out + ".cur")
			if timedOut {
				a.mu.Lock()
				a.incon++
				eb, _ := os.ReadFile(errf)
				a.broken = append(a.broken, fmt.Sprintf("run watchdog expired in case %d (inconclusive): %s", lastBegin, firstLines(string(eb), 3)))
				a.mu.Unlock()
				keep := filepath.Join(o.VerifDir, "replays", fmt.Sprintf("%s-watchdog-c%d.stderr", p.ID, lastBegin))
				os.Rename(errf, keep)
				return
			}
			if lastBegin != lastEnd && lastBegin >= 0 {
				// the child died inside case lastBegin
				eb, _ := os.ReadFile(errf)
				if bytes.HasPrefix(eb, []byte("CASE-WATCHDOG")) || bytes.Contains(eb, []byte("\nCASE-WATCHDOG")) {
					keep := filepath.Join(o.VerifDir, "replays", fmt.Sprintf("%s-s%d-c%d.watchdog.stderr", p.ID, o.Seed, lastBegin))
					os.WriteFile(keep, eb, 0o644)
					a.mu.Lock()
					a.incon++
					a.results++
					a.evals++
					a.broken = append(a.broken, fmt.Sprintf("case %d inconclusive: the case driver itself was stuck for %v [%s]", lastBegin, CaseBudget, keep))
					a.mu.Unlock()
					next = lastBegin + stride
					continue
				}
				cur, _ := os.ReadFile(out + ".cur")
				curs := strings.TrimRight(string(cur), "\x00")
				if curs != "" {
					eb = append([]byte("CURSOR: "+curs+"\n"), eb...)
				}
				goat, key, head := classifyCrash(string(eb))
				if curs != "" {
					head = head + " | input: " + curs
				}
				keep := filepath.Join(o.VerifDir, "replays", fmt.Sprintf("%s-s%d-c%d.crash.stderr", p.ID, o.Seed, lastBegin))
				os.WriteFile(keep, eb, 0o644)
				a.mu.Lock()
				a.crashes++
				a.results++
				a.evals++
				if goat {
					a.viol = append(a.viol, caseViolation{lastBegin, Violation{Key: key, Msg: "process crashed: " + head, Detail: map[string]any{"stderr": keep}}})
				} else {
					a.broken = append(a.broken, fmt.Sprintf("child died in case %d without a goat frame in the failing goroutine (%v): %s [%s]", lastBegin, werr, head, keep))
				}
				a.mu.Unlock()
				next = lastBegin + stride
				continue
			}
			if werr != nil && lastBegin < 0 {
				eb, _ := os.ReadFile(errf)
				a.mu.Lock()
				a.broken = append(a.broken, fmt.Sprintf("child failed before its first case: %v: %s", werr, firstLines(string(eb), 4)))
				a.mu.Unlock()
				return
			}
			os.Remove(errf)
			if lastEnd < 0 {
				return
			}
			next = lastEnd + stride
		}
	}

	if o.Only >= 0 {
		rep := o.Repeat
		if rep < 1 {
			rep = 1
		}
		for i := 0; i < rep; i++ {
			wg.Add(1)
			runStripe(i, o.Only, n+1, o.Only+1)
		}
	} else {
		for w := 0; w < workers; w++ {
			wg.Add(1)
			go runStripe(w, w, workers, n)
		}
		wg.Wait()
	}

	// race logs
	raceDistinct, raceRaw, raceHarness := 0, 0, 0
	if p.Race {
		raceRaw, raceDistinct, raceHarness = foldRaceLogs(a, o.VerifDir, p.ID, o.Seed)
	}

	// known findings
	var kf KnownFindings
	if b, err := os.ReadFile(filepath.Join(o.VerifDir, "known_findings.json")); err == nil {
		json.Unmarshal(b, &kf)
	}
	known := map[string]string{}
	for _, k := range kf.Known {
		if k.Property == p.ID {
			known[k.Key] = k.What
		}
	}

	exit := 0
	printedKnown := map[string]bool{}
	reported := map[string]bool{}
	wrote := map[string]bool{}
	nviol := 0
	sort.Slice(a.viol, func(i, j int) bool { return a.viol[i].Idx < a.viol[j].Idx })
	for _, cv := range a.viol {
		if what, ok := known[cv.V.Key]; ok {
			if !printedKnown[cv.V.Key] {
				printedKnown[cv.V.Key] = true
				fmt.Printf("KNOWN-FINDING: property=%s %s [key=%s, e.g. case %d: %s]\n", p.ID, what, cv.V.Key, cv.Idx, cv.V.Msg)
			}
			continue
		}
		nviol++
		if reported[cv.V.Key] {
			continue
		}
		reported[cv.V.Key] = true
		path := filepath.Join(o.VerifDir, "replays", fmt.Sprintf("%s-s%d-c%d.json", p.ID, o.Seed, cv.Idx))
		if wrote[path] {
			// a second violation key of the same case: keep the first witness, write this one beside it
			path = filepath.Join(o.VerifDir, "replays", fmt.Sprintf("%s-s%d-c%d-%d.json", p.ID, o.Seed, cv.Idx, len(wrote)))
		}
		wrote[path] = true
		w := map[string]any{"property": p.ID, "tier": o.Tier, "seed": o.Seed, "case": cv.Idx, "key": cv.V.Key, "msg": cv.V.Msg, "detail": cv.V.Detail}
		b, _ := json.MarshalIndent(w, "", " ")
		os.WriteFile(path, b, 0o644)
		fmt.Printf("VIOLATION property=%s replay=%s\n", p.ID, path)
		fmt.Printf("  key=%s case=%d: %s\n", cv.V.Key, cv.Idx, cv.V.Msg)
		exit = 1
	}

	// gates
	if o.Only < 0 {
		if a.results < n && exit == 0 {
			a.broken = append(a.broken, fmt.Sprintf("only %d of %d cases produced a result", a.results, n))
		}
		if p.RequiredStats != nil {
			for _, k := range p.RequiredStats(o.Tier) {
				if a.stats[k] == 0 {
					a.broken = append(a.broken, "required observation never made: "+k)
				}
			}
		}
	}
	inconLimit := n / 100
	brokenRun := false
	for _, b := range a.broken {
		if !strings.Contains(b, "inconclusive") {
			brokenRun = true
		}
	}
	if a.incon > inconLimit {
		brokenRun = true
	}

	// evidence
	if o.Only < 0 {
		cov := map[string]any{
			"evaluations":         a.evals,
			"distinct_nontrivial": a.distinct,
			"rule":                p.Rule,
			"samples":             a.samples,
			"cases":               a.results,
			"cases_planned":       n,
			"inconclusive":        a.incon,
			"child_crashes":       a.crashes,
			"observed":            a.stats,
			"workers":             workers,
		}
		sets := map[string]any{}
		for k, m := range a.sets {
			var vs []string
			for v := range m {
				vs = append(vs, v)
			}
			sort.Strings(vs)
			if len(vs) > 40 {
				sets[k+"_count"] = len(vs)
				vs = vs[:40]
			}
			sets[k] = vs
		}
		if len(sets) > 0 {
			cov["observed_sets"] = sets
		}
		if p.Exhaustive != nil && p.Exhaustive(o.Tier) {
			cov["exhaustive"] = true
		}
		if p.Race {
			cov["race_reports_raw"] = raceRaw
			cov["race_reports_distinct_goat"] = raceDistinct
			cov["race_reports_harness_only"] = raceHarness
		}
		if len(a.broken) > 0 {
			cov["notes"] = a.broken
		}
		if len(a.samples) == 0 {
			cov["samples"] = []any{"no case produced a sample"}
		}
		assume := append([]string{"the harness transports are reliable and ordered", "verdicts cover only the executions produced by this run"}, p.Assumptions...)
		ev := map[string]any{
			"property_id":         p.ID,
			"tier":                o.Tier,
			"seed":                o.Seed,
			"level":               p.Level,
			"coverage":            cov,
			"assumptions":         assume,
			"wall_s":              time.Since(t0).Seconds(),
			"violations":          nviol,
			"known_findings_seen": len(printedKnown),
		}
		b, _ := json.MarshalIndent(ev, "", " ")
		os.MkdirAll(filepath.Join(o.VerifDir, "evidence"), 0o755)
		os.WriteFile(filepath.Join(o.VerifDir, "evidence", p.ID+".json"), b, 0o644)
	}

	fmt.Printf("%s %s seed=%d: cases=%d/%d evaluations=%d distinct_nontrivial=%d violations=%d known=%d inconclusive=%d crashes=%d wall=%.1fs\n",
		p.ID, o.Tier, o.Seed, a.results, n, a.evals, a.distinct, nviol, len(printedKnown), a.incon, a.crashes, time.Since(t0).Seconds())
	var keys []string
	for k := range a.stats {
		keys = append(keys, k)
	}
	sort.Strings(keys)
	var sb bytes.Buffer
	for _, k := range keys {
		fmt.Fprintf(&sb, " %s=%d", k, a.stats[k])
	}
	fmt.Printf("  observed:%s\n", sb.String())
	if exit == 1 {
		return 1
	}
	if brokenRun {
		for _, b := range a.broken {
			fmt.Printf("BROKEN: %s\n", b)
		}
		return 3
	}
	for _, b := range a.broken {
		fmt.Printf("note: %s\n", b)
	}
	return 0
}

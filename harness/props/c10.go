package props

import (
	"context"
	"fmt"
	"strings"
	"sync"

	goat "github.com/avos-io/goat"
	"github.com/avos-io/goat/gen/goatorepo"
	"google.golang.org/grpc"
	"google.golang.org/protobuf/proto"

	"goatverif/bed"
	"goatverif/core"
	"goatverif/svc"
	"goatverif/wire"
)

// C10: server connections end cleanly.

type c10Scn struct {
	U         int    `json:"unary_in_flight"`
	S         int    `json:"streams_in_flight"`
	PeerReads bool   `json:"peer_drains_responses"`
	UnaryKind string `json:"unary_handler"`                            // ctx-gate | gate-only
	Early     int    `json:"unary_completed_before_the_end,omitempty"` // the first Early unary calls finish before the end cause
}

type c10Case struct {
	Scn   c10Scn `json:"scenario"`
	Cause string `json:"cause"` // read-fail | write-fail | stop | serve-ctx-cancel
	Pos   int    `json:"position"`
	GMP   int    `json:"gomaxprocs"`
}

var c10StreamKinds = []string{"recv", "send2-then-ctx-gate", "ctx-gate", "send-until-blocked"}

func c10Scenarios(tier string, seed int64) []c10Scn {
	out := []c10Scn{
		{0, 0, true, "ctx-gate", 0}, {1, 0, true, "ctx-gate", 0}, {0, 1, true, "ctx-gate", 0}, {2, 2, true, "gate-only", 0},
		{8, 0, true, "gate-only", 0}, {0, 8, true, "ctx-gate", 0}, {3, 4, false, "ctx-gate", 0}, {8, 8, true, "ctx-gate", 0},
		{1, 3, false, "gate-only", 0}, {4, 1, true, "ctx-gate", 0}, {2, 5, true, "gate-only", 0}, {5, 2, false, "ctx-gate", 0},
	}
	for i := range out {
		out[i].Early = 0
	}
	// earlier unary calls finish while later ones are still in flight; and more unary requests than
	// the 8 workers (the 9th waits in the read loop)
	out = append(out, c10Scn{3, 0, true, "ctx-gate", 1}, c10Scn{6, 2, true, "ctx-gate", 3}, c10Scn{2, 1, true, "gate-only", 1},
		c10Scn{9, 2, true, "ctx-gate", 0}, c10Scn{12, 2, true, "gate-only", 0}, c10Scn{9, 0, true, "ctx-gate", 0},
		// unary requests that all carry the same id (from different sources: the server does not key
		// unary calls by id, and a hostile or fanned-in peer may send this)
		c10Scn{2, 0, true, "ctx-gate/same-id", 0}, c10Scn{3, 1, true, "gate-only/same-id", 0}, c10Scn{4, 2, true, "ctx-gate/same-id", 1},
		// the client resets its streams before the connection ends: their handlers have been
		// cancelled but are still on their way out (parked behind their gate) when the end comes
		c10Scn{1, 3, true, "ctx-gate/reset-streams", 0}, c10Scn{0, 2, true, "gate-only/reset-streams", 0})
	if tier == "thorough" {
		r := rng(seed, 0, "c10sc")
		for len(out) < 150 {
			sc := c10Scn{r.Intn(9), r.Intn(9), r.Intn(3) != 0, []string{"ctx-gate", "gate-only"}[r.Intn(2)], 0}
			if sc.U > 1 && r.Intn(3) == 0 {
				sc.Early = 1 + r.Intn(sc.U-1)
			}
			if r.Intn(8) == 0 {
				sc.U, sc.PeerReads = 9+r.Intn(4), true
			}
			out = append(out, sc)
		}
	}
	return out
}

func (s c10Scn) responses() int {
	n := 0
	for i := 0; i < s.S; i++ {
		if c10StreamKinds[i%4] == "send2-then-ctx-gate" {
			n += 2
		}
	}
	return n
}

func c10List(tier string, seed int64) []c10Case {
	var out []c10Case
	for si, sc := range c10Scenarios(tier, seed) {
		nreq := sc.U + sc.S
		for p := 0; p <= nreq; p++ {
			if sc.U <= 8 {
				// with more than 8 unary requests the read loop is parked handing the 9th to the busy
				// worker pool and does not read: it cannot notice a read failure before a worker is free
				out = append(out, c10Case{sc, "read-fail", p, []int{1, 4, 16}[(si+p)%3]})
			}
			out = append(out, c10Case{sc, "stop", p, []int{1, 4, 16}[(si+p+1)%3]})
		}
		if sc.PeerReads {
			for k := 0; k < sc.responses(); k++ {
				out = append(out, c10Case{sc, "write-fail", k, []int{1, 4, 16}[(si+k)%3]})
				// the write error is the transport's own shutdown error (a Demux logical connection
				// after Stop answers context.Canceled)
				out = append(out, c10Case{sc, "write-fail/context.Canceled", k, []int{1, 4, 16}[(si+k+1)%3]})
			}
		}
	}
	return out
}

func c10Run(tier string, seed int64, idx int) *core.Result {
	c := c10List(tier, seed)[idx]
	res := &core.Result{Verdict: core.Held, Sample: c, Sig: fmt.Sprintf("%+v", c), NonTrivial: true}
	setGMP(c.GMP)
	h := bed.NewHooks()
	if idx%2 == 0 {
		h.Jitter = uint64(seed)*13 + uint64(idx) + 1
	}
	h.Install()
	goat.VerifResetTracking()
	gates := NewGates()
	impl := svc.NewImpl()
	srv := goat.NewServer("srv")
	srv.RegisterService(&svc.Desc, impl)
	l := wire.NewLink(0, idx%2 == 0)

	type hrec struct {
		tag      string
		stream   bool
		ctx      context.Context
		entered  bool
		exited   bool
		exitSeq  uint64
		errAtRet error // ctx.Err() sampled when Serve returned
		sampled  bool
	}
	var mu sync.Mutex
	recs := map[string]*hrec{}
	enter := func(tag string, stream bool, ctx context.Context) *hrec {
		mu.Lock()
		defer mu.Unlock()
		r := &hrec{tag: tag, stream: stream, ctx: ctx, entered: true}
		recs[tag] = r
		return r
	}
	exit := func(r *hrec) {
		mu.Lock()
		r.exited = true
		r.exitSeq = wire.Tick()
		mu.Unlock()
	}
	impl.DefU = func(ctx context.Context, tag string, req []byte) ([]byte, error) {
		r := enter(tag, false, ctx)
		defer exit(r)
		var k int
		fmt.Sscanf(tag, "u%d", &k)
		if k < c.Scn.Early {
			gates.Wait("u-early") // released before the end cause: this call completes normally
			return req, nil
		}
		if strings.HasPrefix(c.Scn.UnaryKind, "ctx-gate") {
			<-ctx.Done()
		}
		gates.Wait("u")
		return req, nil
	}
	impl.DefS = func(tag, kind string, ss grpc.ServerStream) error {
		r := enter(tag, true, ss.Context())
		defer exit(r)
		var k int
		fmt.Sscanf(tag, "s%d", &k)
		switch c10StreamKinds[k%4] {
		case "recv":
			var m svc.BV
			err := ss.RecvMsg(&m)
			gates.Wait("s")
			return err
		case "send2-then-ctx-gate":
			for i := 0; i < 2; i++ {
				if err := ss.SendMsg(&svc.BV{Value: []byte{byte(i)}}); err != nil {
					gates.Wait("s")
					return err
				}
			}
			<-ss.Context().Done()
			gates.Wait("s")
			return ss.Context().Err()
		case "ctx-gate":
			<-ss.Context().Done()
			gates.Wait("s")
			return ss.Context().Err()
		default: // send-until-blocked
			for i := 0; ; i++ {
				if err := ss.SendMsg(&svc.BV{Value: []byte{byte(i)}}); err != nil {
					gates.Wait("s")
					return err
				}
				if c.Scn.PeerReads && i >= 3 {
					<-ss.Context().Done()
					gates.Wait("s")
					return ss.Context().Err()
				}
			}
		}
	}

	serveCtx, serveCancel := context.WithCancel(context.Background())
	defer serveCancel()
	var serveReturned bool
	var serveSeq uint64
	var serveErr error
	go func() {
		err := srv.Serve(serveCtx, l.B)
		mu.Lock()
		serveErr = err
		serveReturned = true
		serveSeq = wire.Tick()
		for _, r := range recs {
			if r.entered && !r.exited {
				r.errAtRet = r.ctx.Err()
				r.sampled = true
			}
		}
		mu.Unlock()
	}()
	served := func() bool { mu.Lock(); defer mu.Unlock(); return serveReturned }

	// scripted client
	pctx, pcancel := context.WithCancel(context.Background())
	defer pcancel()
	if c.Scn.PeerReads {
		wire.NewPeer(pctx, l.A, nil)
	}
	var reqs []*wire.Rpc
	body, _ := proto.Marshal(&svc.BV{Value: []byte("x")})
	id := uint64(0)
	nu, ns := 0, 0
	for nu < c.Scn.U || ns < c.Scn.S {
		id++
		takeU := nu < c.Scn.U && (ns >= c.Scn.S || (nu+ns)%2 == 0)
		if takeU {
			uid, src := id, "c0"
			if strings.HasSuffix(c.Scn.UnaryKind, "/same-id") {
				uid, src = 1000, fmt.Sprintf("c%d", nu)
			}
			reqs = append(reqs, &wire.Rpc{Id: uid, Header: &goatorepo.RequestHeader{Method: svc.MUnary, Source: src, Destination: "srv",
				Headers: []*goatorepo.KeyValue{{Key: svc.TagKey, Value: fmt.Sprintf("u%d", nu)}}}, Body: &goatorepo.Body{Data: body}})
			nu++
		} else {
			reqs = append(reqs, &wire.Rpc{Id: id, Header: &goatorepo.RequestHeader{Method: svc.MBidi, Source: "c0", Destination: "srv",
				Headers: []*goatorepo.KeyValue{{Key: svc.TagKey, Value: fmt.Sprintf("s%d", ns)}}}})
			ns++
		}
	}
	nsend := len(reqs)
	switch c.Cause {
	case "read-fail":
		l.B.FailReadAfter(c.Pos)
		nsend = c.Pos
	case "stop":
		nsend = c.Pos
	case "write-fail", "write-fail/context.Canceled":
		if c.Cause == "write-fail/context.Canceled" {
			l.B.SetWriteErr(fmt.Errorf("logical connection closed: %w", context.Canceled))
		}
		l.B.FailWriteAt(c.Pos, false)
	}
	writerDone := make(chan struct{})
	go func() {
		defer close(writerDone)
		for i := 0; i < nsend; i++ {
			if err := l.A.Write(pctx, reqs[i]); err != nil {
				return
			}
		}
	}()
	// stage 1: requests delivered, handlers parked (or Serve already gone)
	quiet(tier)
	mu.Lock()
	inflight := 0
	for _, r := range recs {
		if r.entered && !r.exited {
			inflight++
		}
	}
	mu.Unlock()
	res.Stat("handlers_in_flight_at_end_cause", int64(inflight))
	if strings.HasSuffix(c.Scn.UnaryKind, "/reset-streams") {
		// (in its own goroutine: a server that has already stopped reading never takes them)
		go func() {
			for i := 0; i < nsend; i++ {
				if reqs[i].GetHeader().GetMethod() == svc.MBidi {
					if l.A.Write(pctx, &wire.Rpc{Id: reqs[i].GetId(), Header: reqs[i].GetHeader(), Reset_: &goatorepo.Reset{Type: "RST_STREAM"}}) != nil {
						return
					}
				}
			}
		}()
		quiet(tier)
		res.Stat("streams_reset_by_the_client_before_the_end", 1)
	}
	if c.Scn.Early > 0 {
		gates.Open("u-early")
		quiet(tier)
		res.Stat("unary_calls_completed_before_end_cause", int64(c.Scn.Early))
	}
	switch c.Cause {
	case "stop":
		srv.Stop()
	case "serve-ctx-cancel":
		// not an end cause named by the property; used to make sure cancelling Serve's own context also ends it
		serveCancel()
	case "read-fail":
		if c.Pos >= len(reqs) {
			// the failure takes effect on the server's next Read, which is already pending: trigger it
			l.B.FailRead()
		}
	}
	// stage 2
	st, snap := settle(tier, served)
	if st == "stuck" {
		// streaming handlers behind their gates legitimately hold Serve back: stage boundary
		res.Stat("serve_waited_for_gated_stream_handlers", 1)
		gates.Open("s")
		st, snap = settle(tier, served)
	}
	switch st {
	case "stuck":
		if strings.HasPrefix(c.Cause, "write-fail") && !served() && c.Pos >= 0 {
			// did the failing write ever happen?
		}
		res.ViolateD("serve-does-not-return/"+c.Cause, map[string]any{"goat_goroutines": goatParked(snap)}, "Serve has not returned in a final state after %s at position %d", c.Cause, c.Pos)
	case "timeout":
		res.Verdict, res.Note = core.Inconclusive, "watchdog waiting for Serve"
	case "ok":
		mu.Lock()
		for _, r := range recs {
			if r.stream && (!r.exited || r.exitSeq > serveSeq) {
				res.Violate("serve-returned-before-stream-handler-finished", "Serve returned while streaming handler %s was still running", r.tag)
			}
			if r.sampled && r.errAtRet == nil {
				kind := "unary"
				if r.stream {
					kind = "stream"
				}
				res.Violate("handler-context-live-when-serve-returned/"+kind, "context of in-flight %s handler %s was not cancelled when Serve returned (%s)", kind, r.tag, c.Cause)
			}
			if r.sampled {
				res.Stat("handler_contexts_sampled_at_serve_return", 1)
			}
		}
		_ = serveErr
		mu.Unlock()
	}
	// stage 3: let every handler return, then look for leftovers
	gates.OpenAll()
	pcancel()
	final, snap2 := quiet(tier)
	if !final {
		if res.Verdict == core.Held {
			res.Verdict, res.Note = core.Inconclusive, "no final state after releasing handlers"
		}
	} else if st == "ok" {
		mu.Lock()
		for _, r := range recs {
			if !r.exited {
				res.Violate("handler-never-returns", "handler %s has not returned after release", r.tag)
			}
		}
		mu.Unlock()
		if left := snap2.Goat(); len(left) > 0 {
			res.ViolateD("goroutine-left-after-serve/"+firstGoatFrame(left[0].Frames), map[string]any{"left": goatParked(snap2)},
				"%d goroutine(s) of the connection still alive after Serve returned and all handlers finished, e.g. %s", len(left), firstGoatFrame(left[0].Frames))
		}
		for _, n := range goat.VerifServerStreamCounts() {
			if n != 0 {
				res.Violate("stream-registry-not-empty", "%d streams still registered after Serve returned", n)
			}
		}
	}
	res.Stat("positions_enumerated", 1)
	res.SetAdd("causes", c.Cause)
	l.Kill()
	srv.Stop()
	left, fin := bed.Hygiene(watchdog(tier))
	bed.Uninstall()
	h.Fold(res)
	if !fin || len(left) > 0 {
		res.Retire = true
	}
	<-writerDone
	return res
}

func firstGoatFrame(frames []string) string {
	for _, f := range frames {
		if len(f) > 23 && f[:23] == "github.com/avos-io/goat" {
			return f
		}
	}
	return "?"
}

func init() {
	core.Register(&core.Prop{
		ID:         "C10",
		Level:      "fault_enumeration",
		Rule:       "scenarios (quick 18 fixed, thorough 150 seeded) = U in 0..12 unary (more than the 8 workers: the 9th waits in the read loop; some scenarios let the first unary calls complete before the end cause) + S in 0..8 streaming handlers in flight (stream handlers cycle: blocked in receive / sent 2 then wait for ctx / wait for ctx / sending until blocked; unary handlers wait for ctx then a harness gate, or only the gate), responses drained by the scripted client or not; end cause x position: transport read failure after every prefix 0..U+S of the request sequence, Stop after every prefix, transport write failure at every response envelope, plus cancellation of Serve's own context. Distinct = (scenario, cause, position); all non-trivial (an end cause is injected in each).",
		Plan:       func(tier string, seed int64) int { return len(c10List(tier, seed)) },
		Run:        c10Run,
		Exhaustive: func(string) bool { return true },
		RequiredStats: func(string) []string {
			return []string{"handler_contexts_sampled_at_serve_return", "serve_waited_for_gated_stream_handlers", "handlers_in_flight_at_end_cause", "unary_calls_completed_before_end_cause"}
		},
		Assumptions: []string{"exhaustive refers to end-cause positions per scenario, not schedules", "a scripted client peer is used so that the process contains no goat client goroutines"},
	})
}

package props

import (
	"context"
	"fmt"
	"io"
	"sync"

	"google.golang.org/grpc"

	"goatverif/bed"
	"goatverif/core"
	"goatverif/svc"
)

// C09: when the client's transport read fails, every call fails promptly and none hangs.

type c09Call struct {
	Kind string `json:"kind"`
	N    int    `json:"n,omitempty"`
	M    int    `json:"m,omitempty"`
}

func (c c09Call) respLen() int {
	switch c.Kind {
	case "unary":
		return 1
	case "client":
		return 2
	case "server":
		return c.M + 1
	default:
		return c.N + 1
	}
}

var c09Base = [][]c09Call{
	{{Kind: "unary"}, {Kind: "unary"}, {Kind: "unary"}},
	{{Kind: "client", N: 3}},
	{{Kind: "server", M: 4}},
	{{Kind: "bidi", N: 3}},
	{{Kind: "unary"}, {Kind: "bidi", N: 2}, {Kind: "server", M: 3}},
	{{Kind: "client", N: 2}, {Kind: "client", N: 2}},
	{{Kind: "bidi", N: 4}, {Kind: "unary"}},
	{{Kind: "server", M: 6}, {Kind: "unary"}, {Kind: "unary"}},
}

func c09Scenarios(tier string, seed int64) [][]c09Call {
	sc := append([][]c09Call{}, c09Base...)
	if tier == "thorough" {
		r := rng(seed, 0, "c09sc")
		for len(sc) < 60 {
			n := 1 + r.Intn(4)
			var s []c09Call
			for i := 0; i < n; i++ {
				switch r.Intn(4) {
				case 0:
					s = append(s, c09Call{Kind: "unary"})
				case 1:
					s = append(s, c09Call{Kind: "client", N: r.Intn(5)})
				case 2:
					s = append(s, c09Call{Kind: "server", M: r.Intn(7)})
				default:
					s = append(s, c09Call{Kind: "bidi", N: r.Intn(6)})
				}
			}
			sc = append(sc, s)
		}
	}
	return sc
}

type c09Case struct {
	Scenario  int       `json:"scenario"`
	Calls     []c09Call `json:"calls"`
	Timing    string    `json:"timing"` // position | window-unary | window-stream | after
	Pos       int       `json:"fail_after_n_responses"`
	WriteMode string    `json:"write_side"` // fails | discards
	GMP       int       `json:"gomaxprocs"`
	ReadErr   string    `json:"read_error_kind"` // custom | io.EOF | wrapped-io.EOF | context.Canceled | wrapped-context.Canceled | DeadlineExceeded
}

func c09List(tier string, seed int64) []c09Case {
	var out []c09Case
	for si, sc := range c09Scenarios(tier, seed) {
		L := 0
		for _, c := range sc {
			L += c.respLen()
		}
		for _, wm := range []string{"fails", "discards"} {
			for p := 0; p <= L; p++ {
				out = append(out, c09Case{Scenario: si, Calls: sc, Timing: "position", Pos: p, WriteMode: wm, GMP: []int{1, 4, 16}[(si+p)%3]})
			}
			for _, t := range []string{"window-unary", "window-stream", "after"} {
				for _, p := range []int{0, L / 2, L} {
					out = append(out, c09Case{Scenario: si, Calls: sc, Timing: t, Pos: p, WriteMode: wm, GMP: []int{1, 4, 16}[(si+p+1)%3]})
				}
			}
		}
	}
	kinds := []string{"custom", "io.EOF", "wrapped-io.EOF", "context.Canceled", "wrapped-context.Canceled", "DeadlineExceeded"}
	for i := range out {
		out[i].ReadErr = kinds[i%len(kinds)]
	}
	return out
}

func c09ReadErr(kind string) error {
	switch kind {
	case "io.EOF":
		return io.EOF
	case "wrapped-io.EOF":
		return fmt.Errorf("read tcp: connection closed: %w", io.EOF)
	case "context.Canceled":
		return context.Canceled
	case "wrapped-context.Canceled":
		return fmt.Errorf("transport shut down: %w", context.Canceled)
	case "DeadlineExceeded":
		return context.DeadlineExceeded
	}
	return nil
}

type c09CallRun struct {
	spec   c09Call
	tag    string
	cr     *ClientRun // streams
	uDone  bool
	uGot   []byte
	uErr   error
	expect [][]byte
}

func c09Run(tier string, seed int64, idx int) *core.Result {
	list := c09List(tier, seed)
	c := list[idx]
	res := &core.Result{Verdict: core.Held, Sample: c, Sig: fmt.Sprintf("%+v", c), NonTrivial: true}
	setGMP(c.GMP)
	h := bed.NewHooks()
	if idx%2 == 1 {
		h.Jitter = uint64(seed)*17 + uint64(idx)
	}
	var mu sync.Mutex
	winArmed := false
	winParked := make(chan struct{})
	winRelease := make(chan struct{})
	h.On("mux.register.window", func(id uint64) {
		mu.Lock()
		a := winArmed
		winArmed = false
		mu.Unlock()
		if a {
			close(winParked)
			<-winRelease
		}
	})
	h.Install()
	b := bed.New(bed.Opts{Cap: idx % 2 * 4, Serialise: idx%3 == 0})
	cc := b.Conns[0]
	end := b.Links[0].A
	// a reader that gives up at the first failure is answered with it once; one that has been
	// answered 20 000 times while calls are still pending is spinning on the failed transport
	spinGuard = func() bool { return end.FailedReads() > 20000 }
	defer func() { spinGuard = nil }()
	end.SetReadErr(c09ReadErr(c.ReadErr)) // however the transport words its failure, the calls must fail
	gates := NewGates()

	failNow := func() {
		end.FailRead()
		if c.WriteMode == "fails" {
			end.FailWrite()
		} else {
			end.Discard()
		}
	}
	// position-based failure: the read fails once Pos responses were read
	windowed := c.Timing == "window-unary" || c.Timing == "window-stream"
	if !windowed {
		end.FailReadAfter(c.Pos)
		end.SetOnRead(func(n int) {
			if n >= c.Pos {
				failNow()
			}
		})
	}

	var runs []*c09CallRun
	startCall := func(spec c09Call, tag string) *c09CallRun {
		cr := &c09CallRun{spec: spec, tag: tag}
		switch spec.Kind {
		case "unary":
			go func() {
				got, err := svc.Invoke(context.Background(), cc, tag, []byte("req-"+tag))
				mu.Lock()
				cr.uGot, cr.uErr, cr.uDone = got, err, true
				mu.Unlock()
			}()
		case "client":
			hrec := &SideRec{}
			b.Impl.SetStream(tag, func(t, k string, ss grpc.ServerStream) error {
				return runHandlerProg(ss, t, []Op{{Op: "recvAll"}, {Op: "send", N: 1, Size: 17}}, hrec, gates)
			})
			ops := []Op{}
			if spec.N > 0 {
				ops = append(ops, Op{Op: "send", N: spec.N, Size: 17})
			}
			ops = append(ops, Op{Op: "closeSend"}, Op{Op: "recv", N: 1}, Op{Op: "recvAll"})
			cr.expect = [][]byte{msgBytes(tag, 'S', 0, 17)}
			cr.cr = StartClient(context.Background(), func() {}, nil, cc, "client", tag, nil, ops, nil, gates, nil, nil)
		case "server":
			hrec := &SideRec{}
			hops := []Op{{Op: "recv", N: 1}}
			if spec.M > 0 {
				hops = append(hops, Op{Op: "send", N: spec.M, Size: 17})
			}
			b.Impl.SetStream(tag, func(t, k string, ss grpc.ServerStream) error { return runHandlerProg(ss, t, hops, hrec, gates) })
			for i := 0; i < spec.M; i++ {
				cr.expect = append(cr.expect, msgBytes(tag, 'S', i, 17))
			}
			cr.cr = StartClient(context.Background(), func() {}, nil, cc, "server", tag, []byte("q"), []Op{{Op: "recvAll"}}, nil, gates, nil, nil)
		default:
			hrec := &SideRec{}
			b.Impl.SetStream(tag, func(t, k string, ss grpc.ServerStream) error {
				return runHandlerProg(ss, t, []Op{{Op: "echo"}}, hrec, gates)
			})
			var ops []Op
			for i := 0; i < spec.N; i++ {
				ops = append(ops, Op{Op: "send", N: 1, Size: 17}, Op{Op: "recv", N: 1})
				cr.expect = append(cr.expect, msgBytes(tag, 'C', i, 17))
			}
			ops = append(ops, Op{Op: "closeSend"}, Op{Op: "recvAll"})
			cr.cr = StartClient(context.Background(), func() {}, nil, cc, "bidi", tag, nil, ops, nil, gates, nil, nil)
		}
		return cr
	}
	isDone := func(r *c09CallRun) bool {
		if r.spec.Kind == "unary" {
			mu.Lock()
			defer mu.Unlock()
			return r.uDone
		}
		return r.cr.IsDone()
	}
	allDone := func() bool {
		for _, r := range runs {
			if !isDone(r) {
				return false
			}
		}
		return true
	}
	startOthers := func() {
		for i, spec := range c.Calls {
			runs = append(runs, startCall(spec, fmt.Sprintf("c9-%d-%d", idx, i)))
		}
	}
	if !windowed || c.Pos > 0 {
		startOthers()
	}
	var late []*c09CallRun
	switch c.Timing {
	case "window-unary", "window-stream":
		// the designated call passes the failure check and parks before registering;
		// then the read fails and the registry is swept; then it goes on.
		if c.Pos > 0 {
			settle(tier, allDone) // the other calls complete first
		}
		mu.Lock()
		winArmed = true
		mu.Unlock()
		spec := c09Call{Kind: "unary"}
		if c.Timing == "window-stream" {
			spec = c09Call{Kind: "bidi", N: 1}
		}
		d := startCall(spec, fmt.Sprintf("c9-%d-win", idx))
		late = append(late, d)
		st, _ := settle(tier, func() bool {
			select {
			case <-winParked:
				return true
			default:
				return false
			}
		})
		if c.Pos == 0 {
			startOthers() // in flight when the failure happens
			quiet(tier)
		}
		if st == "ok" {
			failNow()
			settle(tier, func() bool { return readErrSet(cc) })
			res.Stat("register_window_rendezvous", 1)
		}
		close(winRelease)
	case "after":
		settle(tier, func() bool { return readErrSet(cc) })
		if !readErrSet(cc) {
			failNow() // scenario finished before reaching Pos responses
			settle(tier, func() bool { return readErrSet(cc) })
		}
		for i, spec := range []c09Call{{Kind: "unary"}, {Kind: "bidi", N: 1}, {Kind: "server", M: 1}, {Kind: "client", N: 1}} {
			late = append(late, startCall(spec, fmt.Sprintf("c9-%d-late%d", idx, i)))
		}
		res.Stat("calls_started_after_failure", int64(len(late)))
		close(winRelease)
	default:
		close(winRelease)
	}
	all := append(append([]*c09CallRun{}, runs...), late...)
	allDoneLate := func() bool {
		if !allDone() {
			return false
		}
		for _, r := range late {
			if !isDone(r) {
				return false
			}
		}
		return true
	}
	st, snap := settle(tier, allDoneLate)
	if st == "stuck" && !readErrSet(cc) {
		// the whole scenario completed without reaching the failure position and something
		// is parked (cannot happen for position <= L); make the failure happen and look again
		failNow()
		st, snap = settle(tier, allDoneLate)
	}
	switch st {
	case "livelock":
		var pend []string
		for _, r := range all {
			if !isDone(r) {
				pend = append(pend, r.tag+"("+r.spec.Kind+")")
			}
		}
		res.Violate("client-spins-on-failed-transport/"+c.Timing, "the transport's Read has failed %d times (it fails for good after %d responses) and the client keeps calling it while calls %v are still pending: they will never return", end.FailedReads(), c.Pos, pend)
	case "stuck":
		var pend []string
		for _, r := range all {
			if !isDone(r) {
				pend = append(pend, r.tag+"("+r.spec.Kind+")")
			}
		}
		key := "call-hangs-after-transport-failure/" + c.Timing + "/write-" + c.WriteMode
		res.ViolateD(key, map[string]any{"pending": pend, "goat_goroutines": goatParked(snap)},
			"transport read failed (after %d responses, write side %s) but calls %v never return: final state reached", c.Pos, c.WriteMode, pend)
	case "timeout":
		res.Verdict, res.Note = core.Inconclusive, "watchdog"
	case "ok":
		// which ids had their complete response read before the failure?
		tagID := map[string]uint64{}
		var s2c []uint64
		complete := map[uint64]bool{}
		reads := end.Reads()
		for _, e := range b.Links[0].Tap.Log() {
			if e.Dir == 0 {
				for _, kv := range e.Rpc.GetHeader().GetHeaders() {
					if kv.Key == svc.TagKey {
						if _, ok := tagID[kv.Value]; !ok {
							tagID[kv.Value] = e.Rpc.GetId()
						}
					}
				}
			} else {
				s2c = append(s2c, e.Rpc.GetId())
				if len(s2c) <= reads && e.Rpc.GetTrailer() != nil {
					complete[e.Rpc.GetId()] = true
				}
			}
		}
		failed := readErrSet(cc)
		for _, r := range all {
			id, known := tagID[r.tag]
			var outcome error
			var gotSeq [][]byte
			if r.spec.Kind == "unary" {
				outcome = r.uErr
				if r.uErr == nil {
					gotSeq = [][]byte{r.uGot}
				}
			} else {
				outcome = callerOutcome(r.cr.Rec)
				gotSeq = r.cr.Rec.Recvd
			}
			success := outcome == nil // a unary call succeeded iff Invoke returned nil (io.EOF from it is an error)
			if r.spec.Kind != "unary" {
				success = outcome == io.EOF
				if outcome == nil {
					res.Violate("stream-call-ended-without-result", "%s: stream ended with neither io.EOF nor an error", r.tag)
				}
			}
			isLate := false
			for _, l := range late {
				if l == r {
					isLate = true
				}
			}
			if success {
				if isLate {
					res.Violate("call-after-failure-succeeds/"+c.Timing, "%s (%s) started %s the failure reports success", r.tag, r.spec.Kind, c.Timing)
				} else if failed && (!known || !complete[id]) {
					res.Violate("fabricated-success", "%s (%s) reports success although its complete response was not read before the failure (reads=%d)", r.tag, r.spec.Kind, reads)
				}
				// exact result
				if r.spec.Kind == "unary" {
					if string(r.uGot) != "req-"+r.tag {
						res.Violate("wrong-result", "%s: reply %q", r.tag, r.uGot)
					}
				} else if ok, why := seqEqual(gotSeq, r.expect); !ok {
					res.Violate("wrong-result", "%s: successful stream delivered a wrong sequence: %s", r.tag, why)
				}
				res.Stat("calls_succeeded_before_failure", 1)
			} else {
				if r.spec.Kind != "unary" && !isPrefix(gotSeq, r.expect) {
					res.Violate("wrong-result", "%s: failed stream delivered messages that were never sent", r.tag)
				}
				res.Stat("calls_failed", 1)
			}
		}
	}
	res.Stat("calls", int64(len(all)))
	res.Stat("positions_enumerated", 1)
	res.SetAdd("timings", c.Timing+"/"+c.WriteMode)
	res.SetAdd("read_error_kinds", c.ReadErr)
	finish(tier, b, h, res)
	return res
}

func init() {
	core.Register(&core.Prop{
		ID:         "C09",
		Level:      "fault_enumeration",
		Rule:       "for each scenario (quick 8 fixed, thorough 60 incl. seeded random mixes of unary / client- / server- / bidi-stream calls) the client transport's read fails after EVERY prefix 0..L of the response envelope sequence, x write side {fails too, stays writable and discards} x read error kind {custom, io.EOF, wrapped io.EOF, context.Canceled, wrapped context.Canceled, DeadlineExceeded} (cycled over the cases); plus per scenario and write mode: a call parked by a rendezvous hook between the failure check and its registration while the failure and registry sweep happen (unary and stream), and calls started after the failure is recorded. Every case is a distinct (scenario, position, mode, timing) tuple and non-trivial (a fault is injected in each).",
		Plan:       func(tier string, seed int64) int { return len(c09List(tier, seed)) },
		Run:        c09Run,
		Exhaustive: func(string) bool { return true },
		RequiredStats: func(string) []string {
			return []string{"register_window_rendezvous", "calls_started_after_failure", "calls_failed", "calls_succeeded_before_failure", "hook:mux.register.window"}
		},
		Assumptions: []string{"exhaustive refers to failure positions per scenario (every prefix of the response sequence), not to schedules"},
	})
}

package props

import (
	"bytes"
	"context"
	"fmt"
	"io"
	"net"
	"net/http"
	"net/http/httptest"
	"runtime"
	"strings"
	"sync"
	"sync/atomic"
	"time"

	goat "github.com/avos-io/goat"
	"github.com/coder/websocket"
	"google.golang.org/grpc"
	"google.golang.org/grpc/codes"
	"google.golang.org/grpc/status"

	"goatverif/bed"
	"goatverif/core"
	"goatverif/svc"
	"goatverif/wire"
)

// The shipped websocket transport over real (loopback) sockets. Kernel I/O is outside the
// final-state argument, so these workloads use generous wall-clock bounds whose expiry is
// inconclusive; only wrong answers are violations.

// slowConn makes socket writes stall part-way, as a congested TCP connection does: every other
// write is delivered in two halves with a pause in between.
type slowConn struct {
	net.Conn
	n    atomic.Uint64
	hook atomic.Pointer[func(size int)] // called while a write is half-way
}

func (c *slowConn) Write(p []byte) (int, error) {
	k := c.n.Add(1)
	pause := func() {
		for i := 0; i < 10; i++ {
			runtime.Gosched()
		}
		if k%4 == 0 {
			time.Sleep(50 * time.Microsecond)
		}
	}
	if len(p) > 1 && k%2 == 0 {
		half := len(p) / 2
		n, err := c.Conn.Write(p[:half])
		if err != nil {
			return n, err
		}
		pause()
		if f := c.hook.Load(); f != nil {
			(*f)(len(p))
		}
		m, err := c.Conn.Write(p[half:])
		return n + m, err
	}
	return c.Conn.Write(p)
}

type slowListener struct{ net.Listener }

func (l slowListener) Accept() (net.Conn, error) {
	c, err := l.Listener.Accept()
	if err != nil {
		return nil, err
	}
	return &slowConn{Conn: c}, nil
}

func wsPairSlow(ctx context.Context) (srvConn, cliConn *websocket.Conn, cliSock *slowConn, cleanup func(), err error) {
	ch := make(chan *websocket.Conn, 1)
	hold := make(chan struct{})
	srv := httptest.NewUnstartedServer(http.HandlerFunc(func(w http.ResponseWriter, r *http.Request) {
		c, err := websocket.Accept(w, r, nil)
		if err != nil {
			return
		}
		c.SetReadLimit(4 << 20)
		ch <- c
		<-hold
	}))
	srv.Listener = slowListener{srv.Listener}
	srv.Start()
	hc := &http.Client{Transport: &http.Transport{DialContext: func(ctx context.Context, network, addr string) (net.Conn, error) {
		var d net.Dialer
		c, err := d.DialContext(ctx, network, addr)
		if err != nil {
			return nil, err
		}
		cliSock = &slowConn{Conn: c}
		return cliSock, nil
	}}}
	c, _, err := websocket.Dial(ctx, "ws"+strings.TrimPrefix(srv.URL, "http"), &websocket.DialOptions{HTTPClient: hc})
	if err != nil {
		srv.Close()
		return nil, nil, nil, nil, err
	}
	c.SetReadLimit(4 << 20)
	select {
	case s := <-ch:
		return s, c, cliSock, func() { close(hold); s.CloseNow(); c.CloseNow(); hc.CloseIdleConnections(); srv.Close() }, nil
	case <-time.After(10 * time.Second):
		srv.Close()
		return nil, nil, nil, nil, fmt.Errorf("accept timeout")
	}
}

type wsCase struct {
	Family  string `json:"family"`
	Callers int    `json:"unary_callers"`
	Streams int    `json:"streams"`
	Msgs    int    `json:"messages_per_stream"`
	GMP     int    `json:"gomaxprocs"`
}

func wsGen(idx int, withStreams bool) wsCase {
	c := wsCase{Family: "websocket", Callers: []int{2, 8, 16, 64}[idx%4], GMP: []int{4, 16, 2, 16}[(idx/2)%4]}
	if withStreams {
		c.Callers = []int{2, 8, 16}[idx%3]
		c.Streams = []int{2, 4, 8}[(idx/3)%3]
		c.Msgs = 2 + idx%4
	}
	return c
}

// wsPayload: recognisable bytes (the tag repeated), sizes on both sides of the websocket's 4 KiB
// write chunk.
func wsPayload(tag string, i int) []byte {
	n := []int{0, 17, 5000, 9000, 20000, 65536, 4096, 12000}[i%8]
	if n == 0 {
		return []byte{}
	}
	return []byte(strings.Repeat(tag+"|", n/(len(tag)+1)+1))[:n]
}

// wsWorkload runs concurrent unary calls (and echo streams) over one websocket connection between
// a real client and a real server and reports every call whose request, reply or stream content is
// not its own. prefix names the property's violation keys.
//
// judge selects what is held against the property: "unary" (C01: every unary call returns its
// own reply), "streams" (C02: every stream delivers everything and ends with io.EOF; unary calls
// likewise), "isolation" (C05: nobody sees foreign content; calls that merely fail are counted,
// not judged).
func wsWorkload(seed int64, idx int, c wsCase, judge string, res *core.Result) {
	setGMP(c.GMP)
	ctx, cancel := context.WithTimeout(context.Background(), 60*time.Second)
	defer cancel()
	sc, cl, _, cleanup, err := wsPairSlow(ctx)
	if err != nil {
		res.Verdict, res.Note = core.Inconclusive, "websocket setup: "+err.Error()
		return
	}
	defer cleanup()
	goat.VerifResetTracking()
	impl := svc.NewImpl()
	srv := goat.NewServer("srv")
	srv.RegisterService(&svc.Desc, impl)
	served := make(chan struct{})
	go func() { srv.Serve(ctx, goat.NewGoatOverWebsocket(sc)); close(served) }()
	cc := goat.NewClientConn(goat.NewGoatOverWebsocket(cl), "c0", "srv")

	type rec struct {
		tag       string
		req, want []byte
		seen      [][]byte
		got       []byte
		err       error
	}
	var mu sync.Mutex
	recs := map[string]*rec{}
	var order []*rec
	for i := 0; i < c.Callers; i++ {
		tag := fmt.Sprintf("w%d-u%d", idx, i)
		rc := &rec{tag: tag, req: wsPayload("q"+tag, i+int(seed)), want: wsPayload("r"+tag, i+3+int(seed))}
		recs[tag] = rc
		order = append(order, rc)
	}
	hold := c.Callers
	if hold > 4 {
		hold = 4
	}
	var entered atomic.Int32
	allIn := make(chan struct{})
	var once sync.Once
	impl.DefU = func(hctx context.Context, tag string, req []byte) ([]byte, error) {
		mu.Lock()
		rc := recs[tag]
		if rc != nil {
			rc.seen = append(rc.seen, append([]byte{}, req...))
		}
		mu.Unlock()
		if rc == nil {
			return nil, fmt.Errorf("unknown tag %q", tag)
		}
		// the first handlers stay busy until several requests have arrived, so that calls overlap
		if int(entered.Add(1)) >= hold {
			once.Do(func() { close(allIn) })
		}
		select {
		case <-allIn:
		case <-time.After(2 * time.Second):
		case <-ctx.Done():
		}
		return rc.want, nil
	}
	impl.DefS = func(tag, kind string, ss grpc.ServerStream) error {
		for {
			m := new(svc.BV)
			if err := ss.RecvMsg(m); err != nil {
				if err == io.EOF {
					return nil
				}
				return err
			}
			if err := ss.SendMsg(&svc.BV{Value: append([]byte("echo:"), m.Value...)}); err != nil {
				return err
			}
		}
	}
	var wg sync.WaitGroup
	start := make(chan struct{})
	for _, rc := range order {
		wg.Add(1)
		go func() {
			defer wg.Done()
			<-start
			rc.got, rc.err = svc.Invoke(ctx, cc, rc.tag, rc.req)
		}()
	}
	type srec struct {
		tag     string
		errs    []string
		foreign []string
	}
	var srecs []*srec
	for s := 0; s < c.Streams; s++ {
		sr := &srec{tag: fmt.Sprintf("w%d-s%d", idx, s)}
		srecs = append(srecs, sr)
		wg.Add(1)
		go func() {
			defer wg.Done()
			<-start
			st, err := svc.Open(ctx, cc, "bidi", sr.tag, nil)
			if err != nil {
				sr.errs = append(sr.errs, "open: "+err.Error())
				return
			}
			for j := 0; j < c.Msgs; j++ {
				p := wsPayload(fmt.Sprintf("%s-m%d", sr.tag, j), j+s+int(seed))
				if err := st.Send(p); err != nil {
					sr.errs = append(sr.errs, fmt.Sprintf("send %d: %v", j, err))
					return
				}
				got, err := st.Recv()
				if err != nil {
					sr.errs = append(sr.errs, fmt.Sprintf("recv %d: %v", j, err))
					return
				}
				if !bytes.Equal(got, append([]byte("echo:"), p...)) {
					sr.foreign = append(sr.foreign, fmt.Sprintf("message %d is not this stream's echo (%d bytes, starts %q)", j, len(got), head(got)))
				}
			}
			st.CloseSend()
			if _, err := st.Recv(); err != io.EOF {
				sr.errs = append(sr.errs, fmt.Sprintf("end of stream: %v", err))
			}
		}()
	}
	close(start)
	done := make(chan struct{})
	go func() { wg.Wait(); close(done) }()
	select {
	case <-done:
	case <-time.After(30 * time.Second):
		res.Verdict, res.Note = core.Inconclusive, "websocket workload did not finish within 30 s (kernel I/O: no final-state argument)"
	}
	timedOut := res.Verdict == core.Inconclusive
	cancel()
	if timedOut {
		<-done
	}
	mu.Lock()
	for _, rc := range order {
		switch {
		case len(rc.seen) > 1:
			res.Violate("ws/handler-ran-more-than-once", "%s: handler ran %d times", rc.tag, len(rc.seen))
		case len(rc.seen) == 1 && !bytes.Equal(rc.seen[0], rc.req):
			res.Violate("ws/handler-saw-a-request-nobody-sent", "%s: handler saw %d bytes starting %q, caller sent %d bytes starting %q", rc.tag, len(rc.seen[0]), head(rc.seen[0]), len(rc.req), head(rc.req))
		}
		if timedOut {
			continue
		}
		switch {
		case rc.err != nil && judge == "isolation":
			res.Stat("ws_failed_calls_not_judged_here", 1)
		case rc.err != nil:
			res.Violate("ws/unary-call-failed-on-healthy-connection", "%s: %v", rc.tag, rc.err)
		case !bytes.Equal(rc.got, rc.want):
			res.Violate("ws/caller-got-a-reply-that-is-not-its-own", "%s: got %d bytes starting %q, its handler returned %d bytes starting %q", rc.tag, len(rc.got), head(rc.got), len(rc.want), head(rc.want))
		case len(rc.seen) == 0:
			res.Violate("ws/reply-without-handler-run", "%s: reply received but the handler never ran", rc.tag)
		default:
			res.Stat("ws_unary_calls_checked", 1)
		}
	}
	mu.Unlock()
	for _, sr := range srecs {
		if timedOut {
			continue
		}
		if len(sr.foreign) > 0 {
			res.Violate("ws/stream-observed-foreign-message", "%s: %s", sr.tag, strings.Join(sr.foreign, "; "))
		} else if len(sr.errs) > 0 && judge == "isolation" {
			res.Stat("ws_failed_calls_not_judged_here", 1)
		} else if len(sr.errs) > 0 {
			res.Violate("ws/stream-failed-or-incomplete-on-healthy-connection", "%s: %s", sr.tag, strings.Join(sr.errs, "; "))
		} else {
			res.Stat("ws_streams_checked", 1)
		}
	}
	res.Stat("ws_cases", 1)
	res.Evals = int64(c.Callers + c.Streams)
	res.NonTrivial = true
	cleanup2 := time.After(5 * time.Second)
	select {
	case <-served:
	case <-cleanup2:
	}
	res.Retire = true // kernel sockets and net/http goroutines: start the next case from a fresh process
}

func head(b []byte) string {
	if len(b) > 24 {
		b = b[:24]
	}
	return string(b)
}

// c01ReplyThenEnd: every caller's reply has been read by the client and dispatched to the call,
// and the connection has then ended, before the caller gets back from its transport write (a
// write that returns late, or a caller that is not scheduled). The reply was delivered: the
// caller must get it.
func c01ReplyThenEnd(tier string, seed int64, idx, k int, res *core.Result) {
	setGMP([]int{1, 4, 16}[idx%3])
	h := bed.NewHooks()
	h.Install()
	b := bed.New(bed.Opts{Cap: []int{0, 8}[idx%2], Serialise: (idx/2)%2 == 0})
	cc := b.Conns[0]
	l := b.Links[0]
	release := make(chan struct{})
	l.Tap.SetOnDelivered(func(n int, r *wire.Rec) {
		if r.Dir == 0 {
			<-release // the caller's Write does not return yet
		}
	})
	b.Impl.DefU = func(ctx context.Context, tag string, req []byte) ([]byte, error) {
		return append([]byte("reply-to:"), req...), nil
	}
	type out struct {
		got []byte
		err error
	}
	outs := make([]out, k)
	var w Waiter
	w.Add(k)
	for i := 0; i < k; i++ {
		go func() {
			defer w.Done()
			outs[i].got, outs[i].err = svc.Invoke(context.Background(), cc, fmt.Sprintf("rte%d-%d", idx, i), []byte(fmt.Sprintf("req-%d-%d", idx, i)))
		}()
	}
	quiet(tier) // all replies are on the client, dispatched to their calls
	if l.A.Reads() < k {
		res.Verdict, res.Note = core.Inconclusive, fmt.Sprintf("only %d of %d replies were read by the client", l.A.Reads(), k)
	}
	kind := []string{"eof", "fail"}[idx%2]
	if kind == "eof" {
		l.A.SetReadErr(io.EOF)
	}
	l.A.FailRead()
	quiet(tier)
	if !readErrSet(cc) && res.Verdict == core.Held {
		res.Verdict, res.Note = core.Inconclusive, "the client has not recorded the end of the connection"
	}
	close(release)
	st, snap := settle(tier, func() bool { return w.Left() == 0 })
	if st == "stuck" {
		res.ViolateD("reply-then-end/caller-never-returns", map[string]any{"goat_goroutines": goatParked(snap)}, "a caller whose reply had arrived never returns")
	} else if st == "ok" && res.Verdict == core.Held {
		for i, o := range outs {
			want := fmt.Sprintf("reply-to:req-%d-%d", idx, i)
			switch {
			case o.err != nil:
				res.Violate("reply-then-end/delivered-reply-lost", "caller %d of %d: its reply had been read and dispatched before the connection ended (%s), yet the call failed: %v", i, k, kind, o.err)
			case string(o.got) != want:
				res.Violate("reply-then-end/wrong-reply", "caller %d: got %q want %q", i, o.got, want)
			default:
				res.Stat("replies_kept_across_connection_end", 1)
			}
		}
	}
	res.Evals = int64(k)
	res.NonTrivial = true
	finish(tier, b, h, res)
}

// c11WSCancel: over the shipped websocket transport, a caller gives up (cancel, deadline) while
// the frame of its request or message is half-way onto the socket. Calls already in flight on the
// connection and a call started afterwards must still complete.
func c11WSCancel(tier string, seed int64, idx int, res *core.Result) {
	victim := []string{"unary-cancel", "unary-deadline", "stream-send-cancel"}[idx%3]
	res.Sample = map[string]any{"family": "websocket-cancel-mid-write", "victim": victim}
	setGMP([]int{4, 16, 2}[idx%3])
	ctx, cancel := context.WithTimeout(context.Background(), 60*time.Second)
	defer cancel()
	sc, cl, sock, cleanup, err := wsPairSlow(ctx)
	if err != nil || sock == nil {
		res.Verdict, res.Note = core.Inconclusive, fmt.Sprintf("websocket setup: %v", err)
		return
	}
	defer cleanup()
	goat.VerifResetTracking()
	impl := svc.NewImpl()
	srv := goat.NewServer("srv")
	srv.RegisterService(&svc.Desc, impl)
	go srv.Serve(ctx, goat.NewGoatOverWebsocket(sc))
	cc := goat.NewClientConn(goat.NewGoatOverWebsocket(cl), "c0", "srv")
	hold := make(chan struct{})
	var entered atomic.Int32
	impl.DefU = func(hctx context.Context, tag string, req []byte) ([]byte, error) {
		if strings.HasPrefix(tag, "inflight") {
			entered.Add(1)
			select {
			case <-hold:
			case <-ctx.Done():
			}
		}
		return append([]byte("reply:"), req...), nil
	}
	impl.DefS = func(tag, kind string, ss grpc.ServerStream) error {
		for {
			m := new(svc.BV)
			if err := ss.RecvMsg(m); err != nil {
				return nil
			}
		}
	}
	const others = 2
	type out struct {
		got []byte
		err error
	}
	outs := make([]out, others)
	var wg sync.WaitGroup
	for i := 0; i < others; i++ {
		wg.Add(1)
		go func() {
			defer wg.Done()
			outs[i].got, outs[i].err = svc.Invoke(ctx, cc, fmt.Sprintf("inflight%d", i), []byte(fmt.Sprintf("in-%d", i)))
		}()
	}
	deadline := time.Now().Add(20 * time.Second)
	for int(entered.Load()) < others && time.Now().Before(deadline) {
		time.Sleep(time.Millisecond)
	}
	if int(entered.Load()) < others {
		res.Verdict, res.Note = core.Inconclusive, "in-flight calls did not reach their handlers within 20 s"
		close(hold)
		return
	}
	m := svc.NewManualCtx(ctx)
	var fired atomic.Bool
	hook := func(size int) {
		if size >= 2048 && fired.CompareAndSwap(false, true) {
			if victim == "unary-deadline" {
				m.Fire()
			} else {
				m.Cancel()
			}
			time.Sleep(5 * time.Millisecond) // the frame stays half-written for a while
		}
	}
	big := wsPayload("victim", 5) // 64 KiB
	vdone := make(chan error, 1)
	var st *svc.Stream
	if victim == "stream-send-cancel" {
		var err error
		st, err = svc.Open(m, cc, "bidi", "vs", nil)
		if err != nil {
			res.Verdict, res.Note = core.Inconclusive, "victim stream did not open: "+err.Error()
			close(hold)
			return
		}
	}
	sock.hook.Store(&hook)
	go func() {
		if st != nil {
			vdone <- st.Send(big)
			return
		}
		_, err := svc.Invoke(m, cc, "victim", big)
		vdone <- err
	}()
	select {
	case <-vdone:
	case <-time.After(20 * time.Second):
		res.Verdict, res.Note = core.Inconclusive, "the cancelled caller did not return within 20 s"
	}
	if !fired.Load() && res.Verdict == core.Held {
		res.Verdict, res.Note = core.Inconclusive, "no write of the victim was caught half-way"
	}
	sock.hook.Store(nil)
	close(hold)
	wdone := make(chan struct{})
	go func() { wg.Wait(); close(wdone) }()
	select {
	case <-wdone:
	case <-time.After(20 * time.Second):
		if res.Verdict == core.Held {
			res.Verdict, res.Note = core.Inconclusive, "in-flight calls did not return within 20 s"
		}
		cancel()
		<-wdone
	}
	if res.Verdict == core.Held {
		for i, o := range outs {
			if o.err != nil || string(o.got) != fmt.Sprintf("reply:in-%d", i) {
				res.Violate("ws/rpc-in-flight-fails-after-another-caller-gave-up-mid-write", "%s: call %d in flight on the connection: got %q, err %v", victim, i, o.got, o.err)
			} else {
				res.Stat("other_rpcs", 1)
			}
		}
		pctx, pcancel := context.WithTimeout(ctx, 20*time.Second)
		got, err := svc.Invoke(pctx, cc, "probe", []byte("probe"))
		pcancel()
		switch {
		case err != nil && pctx.Err() != nil && ctx.Err() == nil && status.Code(err) == codes.DeadlineExceeded:
			res.Verdict, res.Note = core.Inconclusive, "probe did not return within 20 s"
		case err != nil || string(got) != "reply:probe":
			res.Violate("ws/rpc-fails-after-another-caller-gave-up-mid-write", "%s: probe started afterwards: got %q, err %v", victim, got, err)
		default:
			res.Stat("probes_completed", 1)
			res.Stat("ws_cancel_mid_write_cases", 1)
		}
	}
	res.Stat("abandonments", 1)
	res.NonTrivial = true
	res.Evals = 1
	res.Retire = true
}

package props

import (
	"bytes"
	"context"
	"fmt"
	"io"
	"net"
	"net/http"
	"net/http/httptest"
	"runtime"
	"strings"
	"sync"
	"sync/atomic"
	"time"

	goat "github.com/avos-io/goat"
	"github.com/avos-io/goat/gen/goatorepo"
	"github.com/coder/websocket"
	"github.com/jonboulle/clockwork"
	"google.golang.org/grpc"
	"google.golang.org/grpc/codes"
	"google.golang.org/grpc/status"

	"goatverif/bed"
	"goatverif/core"
	"goatverif/quiesce"
	"goatverif/svc"
	"goatverif/wire"
)

// The shipped websocket transport over real (loopback) sockets. Kernel I/O is outside the
// final-state argument, so these workloads use generous wall-clock bounds whose expiry is
// inconclusive; only wrong answers are violations.

// slowConn makes socket writes stall part-way, as a congested TCP connection does: every other
// write is delivered in two halves with a pause in between.
type slowConn struct {
	net.Conn
	n    atomic.Uint64
	hook atomic.Pointer[func(size int)] // called while a write is half-way
	wr   atomic.Int64                   // bytes handed to the kernel
	rd   atomic.Int64                   // bytes taken from the kernel
}

func (c *slowConn) Read(p []byte) (int, error) {
	n, err := c.Conn.Read(p)
	c.rd.Add(int64(n))
	return n, err
}

func (c *slowConn) write(p []byte) (int, error) {
	n, err := c.Conn.Write(p)
	c.wr.Add(int64(n))
	return n, err
}

// wsSocks are the two ends of one loopback connection. Nothing is in flight in the kernel when
// each end has read exactly what the other wrote.
type wsSocks struct{ cli, srv *slowConn }

func (w wsSocks) inFlight() (int64, int64) {
	return w.cli.wr.Load() - w.srv.rd.Load(), w.srv.wr.Load() - w.cli.rd.Load()
}

// wsSettle waits until cond holds ("ok"), or a state is reached in which nothing can move any
// more ("stuck"): every goroutine durably blocked or waiting for socket input, no real timer of
// the library pending, and no byte in flight between the two ends of the connection (both ends
// are in this process, so socket input can only come from a goroutine that is not blocked). The
// watchdog expiring is "timeout" (inconclusive).
func wsSettle(socks wsSocks, watchdog time.Duration, cond func() bool) (string, *quiesce.Snapshot) {
	deadline := time.Now().Add(watchdog)
	delay := 200 * time.Microsecond
	confirmed := 0
	for {
		if cond() {
			return "ok", nil
		}
		a1, b1 := socks.inFlight()
		snap := quiesce.Take()
		a2, b2 := socks.inFlight()
		if a1 == 0 && b1 == 0 && a2 == 0 && b2 == 0 {
			if ok, _ := snap.FinalIO(); ok && snap.TimerBlocked() == nil {
				if cond() {
					return "ok", snap
				}
				// kernel sockets are not the harness's own links: the verdict is only given when the
				// same picture - nothing in flight, every goroutine blocked - is seen three times,
				// 150 ms apart
				confirmed++
				if confirmed >= 3 {
					return "stuck", snap
				}
				time.Sleep(150 * time.Millisecond)
				continue
			}
		}
		confirmed = 0
		if time.Now().After(deadline) {
			return "timeout", snap
		}
		time.Sleep(delay)
		if delay < 20*time.Millisecond {
			delay *= 2
		}
	}
}

func (c *slowConn) Write(p []byte) (int, error) {
	k := c.n.Add(1)
	pause := func() {
		for i := 0; i < 10; i++ {
			runtime.Gosched()
		}
		if k%4 == 0 {
			time.Sleep(50 * time.Microsecond)
		}
	}
	if len(p) > 1 && k%2 == 0 {
		half := len(p) / 2
		n, err := c.write(p[:half])
		if err != nil {
			return n, err
		}
		pause()
		if f := c.hook.Load(); f != nil {
			(*f)(len(p))
		}
		m, err := c.write(p[half:])
		return n + m, err
	}
	return c.write(p)
}

type slowListener struct {
	net.Listener
	accepted chan *slowConn
}

func (l slowListener) Accept() (net.Conn, error) {
	c, err := l.Listener.Accept()
	if err != nil {
		return nil, err
	}
	sc := &slowConn{Conn: c}
	select {
	case l.accepted <- sc:
	default:
	}
	return sc, nil
}

func wsPairSlow(ctx context.Context) (srvConn, cliConn *websocket.Conn, socks wsSocks, cleanup func(), err error) {
	var cliSock *slowConn
	srvSock := make(chan *slowConn, 4)
	ch := make(chan *websocket.Conn, 1)
	hold := make(chan struct{})
	srv := httptest.NewUnstartedServer(http.HandlerFunc(func(w http.ResponseWriter, r *http.Request) {
		c, err := websocket.Accept(w, r, nil)
		if err != nil {
			return
		}
		c.SetReadLimit(4 << 20)
		ch <- c
		<-hold
	}))
	srv.Listener = slowListener{srv.Listener, srvSock}
	srv.Start()
	hc := &http.Client{Transport: &http.Transport{DialContext: func(ctx context.Context, network, addr string) (net.Conn, error) {
		var d net.Dialer
		c, err := d.DialContext(ctx, network, addr)
		if err != nil {
			return nil, err
		}
		cliSock = &slowConn{Conn: c}
		return cliSock, nil
	}}}
	c, _, err := websocket.Dial(ctx, "ws"+strings.TrimPrefix(srv.URL, "http"), &websocket.DialOptions{HTTPClient: hc})
	if err != nil {
		srv.Close()
		return nil, nil, wsSocks{}, nil, err
	}
	c.SetReadLimit(4 << 20)
	select {
	case s := <-ch:
		socks = wsSocks{cli: cliSock}
		select {
		case socks.srv = <-srvSock:
		default:
		}
		if socks.cli == nil || socks.srv == nil {
			srv.Close()
			return nil, nil, wsSocks{}, nil, fmt.Errorf("socket wrappers not in place")
		}
		return s, c, socks, func() { close(hold); s.CloseNow(); c.CloseNow(); hc.CloseIdleConnections(); srv.Close() }, nil
	case <-time.After(10 * time.Second):
		srv.Close()
		return nil, nil, wsSocks{}, nil, fmt.Errorf("accept timeout")
	}
}

type wsCase struct {
	Family  string `json:"family"`
	Callers int    `json:"unary_callers"`
	Streams int    `json:"streams"`
	Msgs    int    `json:"messages_per_stream"`
	GMP     int    `json:"gomaxprocs"`
}

func wsGen(idx int, withStreams bool) wsCase {
	c := wsCase{Family: "websocket", Callers: []int{2, 8, 16, 64}[idx%4], GMP: []int{4, 16, 2, 16}[(idx/2)%4]}
	if withStreams {
		c.Callers = []int{2, 8, 16}[idx%3]
		c.Streams = []int{2, 4, 8}[(idx/3)%3]
		c.Msgs = 2 + idx%4
	}
	return c
}

// wsPayload: recognisable bytes (the tag repeated), sizes on both sides of the websocket's 4 KiB
// write chunk.
func wsPayload(tag string, i int) []byte {
	n := []int{0, 17, 5000, 9000, 20000, 65536, 4096, 12000}[i%8]
	if n == 0 {
		return []byte{}
	}
	return []byte(strings.Repeat(tag+"|", n/(len(tag)+1)+1))[:n]
}

// wsWorkload runs concurrent unary calls (and echo streams) over one websocket connection between
// a real client and a real server and reports every call whose request, reply or stream content is
// not its own. prefix names the property's violation keys.
//
// judge selects what is held against the property: "unary" (C01: every unary call returns its
// own reply), "streams" (C02: every stream delivers everything and ends with io.EOF; unary calls
// likewise), "isolation" (C05: nobody sees foreign content; calls that merely fail are counted,
// not judged).
func wsWorkload(seed int64, idx int, c wsCase, judge string, res *core.Result) {
	setGMP(c.GMP)
	ctx, cancel := context.WithTimeout(context.Background(), 60*time.Second)
	defer cancel()
	sc, cl, socks, cleanup, err := wsPairSlow(ctx)
	if err != nil {
		res.Verdict, res.Note = core.Inconclusive, "websocket setup: "+err.Error()
		return
	}
	defer cleanup()
	goat.VerifResetTracking()
	impl := svc.NewImpl()
	srv := goat.NewServer("srv")
	srv.RegisterService(&svc.Desc, impl)
	served := make(chan struct{})
	go func() { srv.Serve(ctx, goat.NewGoatOverWebsocket(sc)); close(served) }()
	cc := goat.NewClientConn(goat.NewGoatOverWebsocket(cl), "c0", "srv")

	type rec struct {
		tag       string
		req, want []byte
		seen      [][]byte
		got       []byte
		err       error
	}
	var mu sync.Mutex
	recs := map[string]*rec{}
	var order []*rec
	for i := 0; i < c.Callers; i++ {
		tag := fmt.Sprintf("w%d-u%d", idx, i)
		rc := &rec{tag: tag, req: wsPayload("q"+tag, i+int(seed)), want: wsPayload("r"+tag, i+3+int(seed))}
		recs[tag] = rc
		order = append(order, rc)
	}
	hold := c.Callers
	if hold > 4 {
		hold = 4
	}
	var entered atomic.Int32
	allIn := make(chan struct{})
	var once sync.Once
	impl.DefU = func(hctx context.Context, tag string, req []byte) ([]byte, error) {
		mu.Lock()
		rc := recs[tag]
		if rc != nil {
			rc.seen = append(rc.seen, append([]byte{}, req...))
		}
		mu.Unlock()
		if rc == nil {
			return nil, fmt.Errorf("unknown tag %q", tag)
		}
		// the first handlers stay busy until several requests have arrived, so that calls overlap
		if int(entered.Add(1)) >= hold {
			once.Do(func() { close(allIn) })
		}
		select {
		case <-allIn:
		case <-ctx.Done():
		}
		return rc.want, nil
	}
	impl.DefS = func(tag, kind string, ss grpc.ServerStream) error {
		for {
			m := new(svc.BV)
			if err := ss.RecvMsg(m); err != nil {
				if err == io.EOF {
					return nil
				}
				return err
			}
			if err := ss.SendMsg(&svc.BV{Value: append([]byte("echo:"), m.Value...)}); err != nil {
				return err
			}
		}
	}
	var wg sync.WaitGroup
	start := make(chan struct{})
	for _, rc := range order {
		wg.Add(1)
		go func() {
			defer wg.Done()
			<-start
			rc.got, rc.err = svc.Invoke(ctx, cc, rc.tag, rc.req)
		}()
	}
	type srec struct {
		tag     string
		errs    []string
		foreign []string
	}
	var srecs []*srec
	for s := 0; s < c.Streams; s++ {
		sr := &srec{tag: fmt.Sprintf("w%d-s%d", idx, s)}
		srecs = append(srecs, sr)
		wg.Add(1)
		go func() {
			defer wg.Done()
			<-start
			st, err := svc.Open(ctx, cc, "bidi", sr.tag, nil)
			if err != nil {
				sr.errs = append(sr.errs, "open: "+err.Error())
				return
			}
			for j := 0; j < c.Msgs; j++ {
				p := wsPayload(fmt.Sprintf("%s-m%d", sr.tag, j), j+s+int(seed))
				if err := st.Send(p); err != nil {
					sr.errs = append(sr.errs, fmt.Sprintf("send %d: %v", j, err))
					return
				}
				got, err := st.Recv()
				if err != nil {
					sr.errs = append(sr.errs, fmt.Sprintf("recv %d: %v", j, err))
					return
				}
				if !bytes.Equal(got, append([]byte("echo:"), p...)) {
					sr.foreign = append(sr.foreign, fmt.Sprintf("message %d is not this stream's echo (%d bytes, starts %q)", j, len(got), head(got)))
				}
			}
			st.CloseSend()
			if _, err := st.Recv(); err != io.EOF {
				sr.errs = append(sr.errs, fmt.Sprintf("end of stream: %v", err))
			}
		}()
	}
	close(start)
	done := make(chan struct{})
	go func() { wg.Wait(); close(done) }()
	isDone := func() bool {
		select {
		case <-done:
			return true
		default:
			return false
		}
	}
	st, snap := wsSettle(socks, 45*time.Second, isDone)
	switch {
	case st == "stuck" && judge != "isolation":
		res.ViolateD("ws/calls-never-return", map[string]any{"goat_goroutines": goatParked(snap)}, "calls on a healthy websocket connection never return: every goroutine is blocked, nothing is in flight between the two sockets")
	case st == "stuck":
		res.Stat("ws_failed_calls_not_judged_here", 1)
	case st == "timeout":
		res.Verdict, res.Note = core.Inconclusive, "websocket workload neither finished nor reached a final state within 45 s"
	}
	timedOut := st != "ok"
	cancel()
	if timedOut {
		// the callers may be beyond the reach of their contexts; their records are not read
		select {
		case <-done:
		case <-time.After(5 * time.Second):
		}
	}
	mu.Lock()
	for _, rc := range order {
		switch {
		case len(rc.seen) > 1:
			res.Violate("ws/handler-ran-more-than-once", "%s: handler ran %d times", rc.tag, len(rc.seen))
		case len(rc.seen) == 1 && !bytes.Equal(rc.seen[0], rc.req):
			res.Violate("ws/handler-saw-a-request-nobody-sent", "%s: handler saw %d bytes starting %q, caller sent %d bytes starting %q", rc.tag, len(rc.seen[0]), head(rc.seen[0]), len(rc.req), head(rc.req))
		}
		if timedOut { // what the callers report after the driver cancelled them says nothing
			continue
		}
		switch {
		case rc.err != nil && judge == "isolation":
			res.Stat("ws_failed_calls_not_judged_here", 1)
		case rc.err != nil:
			res.Violate("ws/unary-call-failed-on-healthy-connection", "%s: %v", rc.tag, rc.err)
		case !bytes.Equal(rc.got, rc.want):
			res.Violate("ws/caller-got-a-reply-that-is-not-its-own", "%s: got %d bytes starting %q, its handler returned %d bytes starting %q", rc.tag, len(rc.got), head(rc.got), len(rc.want), head(rc.want))
		case len(rc.seen) == 0:
			res.Violate("ws/reply-without-handler-run", "%s: reply received but the handler never ran", rc.tag)
		default:
			res.Stat("ws_unary_calls_checked", 1)
		}
	}
	mu.Unlock()
	for _, sr := range srecs {
		if timedOut { // what the callers report after the driver cancelled them says nothing
			continue
		}
		if len(sr.foreign) > 0 {
			res.Violate("ws/stream-observed-foreign-message", "%s: %s", sr.tag, strings.Join(sr.foreign, "; "))
		} else if len(sr.errs) > 0 && judge == "isolation" {
			res.Stat("ws_failed_calls_not_judged_here", 1)
		} else if len(sr.errs) > 0 {
			res.Violate("ws/stream-failed-or-incomplete-on-healthy-connection", "%s: %s", sr.tag, strings.Join(sr.errs, "; "))
		} else {
			res.Stat("ws_streams_checked", 1)
		}
	}
	res.Stat("ws_cases", 1)
	res.Evals = int64(c.Callers + c.Streams)
	res.NonTrivial = true
	cleanup2 := time.After(5 * time.Second)
	select {
	case <-served:
	case <-cleanup2:
	}
	res.Retire = true // kernel sockets and net/http goroutines: start the next case from a fresh process
}

func head(b []byte) string {
	if len(b) > 24 {
		b = b[:24]
	}
	return string(b)
}

// c01ReplyThenEnd: every caller's reply has been read by the client and dispatched to the call,
// and the connection has then ended, before the caller gets back from its transport write (a
// write that returns late, or a caller that is not scheduled). The reply was delivered: the
// caller must get it.
func c01ReplyThenEnd(tier string, seed int64, idx, k int, res *core.Result) {
	setGMP([]int{1, 4, 16}[idx%3])
	h := bed.NewHooks()
	h.Install()
	b := bed.New(bed.Opts{Cap: []int{0, 8}[idx%2], Serialise: (idx/2)%2 == 0})
	cc := b.Conns[0]
	l := b.Links[0]
	release := make(chan struct{})
	l.Tap.SetOnDelivered(func(n int, r *wire.Rec) {
		if r.Dir == 0 {
			<-release // the caller's Write does not return yet
		}
	})
	b.Impl.DefU = func(ctx context.Context, tag string, req []byte) ([]byte, error) {
		return append([]byte("reply-to:"), req...), nil
	}
	type out struct {
		got []byte
		err error
	}
	outs := make([]out, k)
	var w Waiter
	w.Add(k)
	for i := 0; i < k; i++ {
		go func() {
			defer w.Done()
			outs[i].got, outs[i].err = svc.Invoke(context.Background(), cc, fmt.Sprintf("rte%d-%d", idx, i), []byte(fmt.Sprintf("req-%d-%d", idx, i)))
		}()
	}
	quiet(tier) // all replies are on the client, dispatched to their calls
	if l.A.Reads() < k {
		res.Verdict, res.Note = core.Inconclusive, fmt.Sprintf("only %d of %d replies were read by the client", l.A.Reads(), k)
	}
	kind := []string{"eof", "fail"}[idx%2]
	if kind == "eof" {
		l.A.SetReadErr(io.EOF)
	}
	l.A.FailRead()
	quiet(tier)
	if !readErrSet(cc) && res.Verdict == core.Held {
		res.Verdict, res.Note = core.Inconclusive, "the client has not recorded the end of the connection"
	}
	close(release)
	st, snap := settle(tier, func() bool { return w.Left() == 0 })
	if st == "stuck" {
		res.ViolateD("reply-then-end/caller-never-returns", map[string]any{"goat_goroutines": goatParked(snap)}, "a caller whose reply had arrived never returns")
	} else if st == "ok" && res.Verdict == core.Held {
		for i, o := range outs {
			want := fmt.Sprintf("reply-to:req-%d-%d", idx, i)
			switch {
			case o.err != nil:
				res.Violate("reply-then-end/delivered-reply-lost", "caller %d of %d: its reply had been read and dispatched before the connection ended (%s), yet the call failed: %v", i, k, kind, o.err)
			case string(o.got) != want:
				res.Violate("reply-then-end/wrong-reply", "caller %d: got %q want %q", i, o.got, want)
			default:
				res.Stat("replies_kept_across_connection_end", 1)
			}
		}
	}
	res.Evals = int64(k)
	res.NonTrivial = true
	finish(tier, b, h, res)
}

// c11WSCancel: over the shipped websocket transport, a caller gives up (cancel, deadline) while
// the frame of its request or message is half-way onto the socket. Calls already in flight on the
// connection and a call started afterwards must still complete.
func c11WSCancel(tier string, seed int64, idx int, res *core.Result) {
	victim := []string{"unary-cancel", "unary-deadline", "stream-send-cancel"}[idx%3]
	res.Sample = map[string]any{"family": "websocket-cancel-mid-write", "victim": victim}
	res.Retire, res.NonTrivial, res.Evals = true, true, 1
	setGMP([]int{4, 16, 2}[idx%3])
	ctx, cancel := context.WithTimeout(context.Background(), 60*time.Second)
	defer cancel()
	sc, cl, socks, cleanup, err := wsPairSlow(ctx)
	sock := socks.cli
	if err != nil || sock == nil {
		res.Verdict, res.Note = core.Inconclusive, fmt.Sprintf("websocket setup: %v", err)
		return
	}
	defer cleanup()
	goat.VerifResetTracking()
	impl := svc.NewImpl()
	srv := goat.NewServer("srv")
	srv.RegisterService(&svc.Desc, impl)
	go srv.Serve(ctx, goat.NewGoatOverWebsocket(sc))
	cc := goat.NewClientConn(goat.NewGoatOverWebsocket(cl), "c0", "srv")
	hold := make(chan struct{})
	var entered atomic.Int32
	impl.DefU = func(hctx context.Context, tag string, req []byte) ([]byte, error) {
		if strings.HasPrefix(tag, "inflight") {
			entered.Add(1)
			select {
			case <-hold:
			case <-ctx.Done():
			}
		}
		return append([]byte("reply:"), req...), nil
	}
	impl.DefS = func(tag, kind string, ss grpc.ServerStream) error {
		for {
			m := new(svc.BV)
			if err := ss.RecvMsg(m); err != nil {
				return nil
			}
		}
	}
	const others = 2
	type out struct {
		got []byte
		err error
	}
	outs := make([]out, others)
	var wg sync.WaitGroup
	for i := 0; i < others; i++ {
		wg.Add(1)
		go func() {
			defer wg.Done()
			outs[i].got, outs[i].err = svc.Invoke(ctx, cc, fmt.Sprintf("inflight%d", i), []byte(fmt.Sprintf("in-%d", i)))
		}()
	}
	if st, _ := wsSettle(socks, 45*time.Second, func() bool { return int(entered.Load()) >= others }); st != "ok" {
		res.Verdict, res.Note = core.Inconclusive, "in-flight calls did not reach their handlers: "+st
		close(hold)
		return
	}
	m := svc.NewManualCtx(ctx)
	var fired atomic.Bool
	hook := func(size int) {
		if size >= 2048 && fired.CompareAndSwap(false, true) {
			if victim == "unary-deadline" {
				m.Fire()
			} else {
				m.Cancel()
			}
			time.Sleep(5 * time.Millisecond) // the frame stays half-written for a while
		}
	}
	big := wsPayload("victim", 5) // 64 KiB
	vdone := make(chan error, 1)
	var st *svc.Stream
	if victim == "stream-send-cancel" {
		var err error
		st, err = svc.Open(m, cc, "bidi", "vs", nil)
		if err != nil {
			res.Verdict, res.Note = core.Inconclusive, "victim stream did not open: "+err.Error()
			close(hold)
			return
		}
	}
	sock.hook.Store(&hook)
	go func() {
		if st != nil {
			vdone <- st.Send(big)
			return
		}
		_, err := svc.Invoke(m, cc, "victim", big)
		vdone <- err
	}()
	chanDone := func(c <-chan struct{}) func() bool {
		return func() bool {
			select {
			case <-c:
				return true
			default:
				return false
			}
		}
	}
	vret := make(chan struct{})
	go func() { <-vdone; close(vret) }()
	switch st, snap := wsSettle(socks, 45*time.Second, chanDone(vret)); st {
	case "stuck":
		res.ViolateD("abandoning-call-never-returns/websocket-"+victim, map[string]any{"goat_goroutines": goatParked(snap)}, "%s: the caller that gave up never returns: final state, nothing in flight between the sockets", victim)
	case "timeout":
		res.Verdict, res.Note = core.Inconclusive, "the cancelled caller neither returned nor reached a final state within 45 s"
	}
	if !fired.Load() && res.Verdict == core.Held && len(res.Violations) == 0 {
		res.Verdict, res.Note = core.Inconclusive, "no write of the victim was caught half-way"
	}
	sock.hook.Store(nil)
	close(hold)
	wdone := make(chan struct{})
	go func() { wg.Wait(); close(wdone) }()
	inflightDone := false
	if res.Verdict == core.Held && len(res.Violations) == 0 {
		switch st, snap := wsSettle(socks, 45*time.Second, chanDone(wdone)); st {
		case "ok":
			inflightDone = true
		case "stuck":
			res.ViolateD("ws/rpc-in-flight-never-completes-after-another-caller-gave-up-mid-write", map[string]any{"goat_goroutines": goatParked(snap)}, "%s: calls in flight on the connection never complete: final state, nothing in flight between the sockets", victim)
		default:
			res.Verdict, res.Note = core.Inconclusive, "in-flight calls neither returned nor reached a final state within 45 s"
		}
	}
	if inflightDone {
		for i, o := range outs {
			if o.err != nil || string(o.got) != fmt.Sprintf("reply:in-%d", i) {
				res.Violate("ws/rpc-in-flight-fails-after-another-caller-gave-up-mid-write", "%s: call %d in flight on the connection: got %q, err %v", victim, i, o.got, o.err)
			} else {
				res.Stat("other_rpcs", 1)
			}
		}
		type pr struct {
			got []byte
			err error
		}
		pch := make(chan pr, 1)
		pdone := make(chan struct{})
		var p pr
		go func() {
			got, err := svc.Invoke(ctx, cc, "probe", []byte("probe"))
			pch <- pr{got, err}
		}()
		go func() { p = <-pch; close(pdone) }()
		switch st, snap := wsSettle(socks, 45*time.Second, chanDone(pdone)); st {
		case "stuck":
			res.ViolateD("ws/rpc-never-completes-after-another-caller-gave-up-mid-write", map[string]any{"goat_goroutines": goatParked(snap)}, "%s: a call started afterwards never completes: final state, nothing in flight between the sockets", victim)
		case "timeout":
			res.Verdict, res.Note = core.Inconclusive, "probe neither returned nor reached a final state within 45 s"
		default:
			if p.err != nil || string(p.got) != "reply:probe" {
				res.Violate("ws/rpc-fails-after-another-caller-gave-up-mid-write", "%s: probe started afterwards: got %q, err %v", victim, p.got, p.err)
			} else {
				res.Stat("probes_completed", 1)
				res.Stat("ws_cancel_mid_write_cases", 1)
			}
		}
	}
	cancel()
	res.Stat("abandonments", 1)
	res.NonTrivial = true
	res.Evals = 1
	res.Retire = true
}

// c07WSCancel: over the shipped websocket transport a streaming call is cancelled (or its deadline
// fires) while one of its own sends is half-way onto the socket. The blocked send returns, later
// receives fail with the context's status, and the handler's context is cancelled.
func c07WSCancel(tier string, seed int64, idx int, c c07Case, res *core.Result) {
	setGMP(c.GMP)
	res.Retire, res.NonTrivial, res.Evals = true, true, 1
	ctx, cancel := context.WithTimeout(context.Background(), 120*time.Second)
	defer cancel()
	sc, cl, socks, cleanup, err := wsPairSlow(ctx)
	if err != nil {
		res.Verdict, res.Note = core.Inconclusive, fmt.Sprintf("websocket setup: %v", err)
		return
	}
	defer cleanup()
	goat.VerifResetTracking()
	impl := svc.NewImpl()
	srv := goat.NewServer("srv")
	srv.RegisterService(&svc.Desc, impl)
	go srv.Serve(ctx, goat.NewGoatOverWebsocket(sc))
	cc := goat.NewClientConn(goat.NewGoatOverWebsocket(cl), "c0", "srv")
	var entered, ctxDone atomic.Bool
	impl.DefS = func(tag, kind string, ss grpc.ServerStream) error {
		m := new(svc.BV)
		if ss.RecvMsg(m) == nil {
			entered.Store(true)
		}
		for ss.RecvMsg(new(svc.BV)) == nil {
		}
		select {
		case <-ss.Context().Done():
			ctxDone.Store(true)
		case <-ctx.Done():
		}
		return ss.Context().Err()
	}
	m := svc.NewManualCtx(ctx)
	st, err := svc.Open(m, cc, "bidi", fmt.Sprintf("wsc%d", idx), nil)
	if err == nil {
		err = st.Send([]byte("first"))
	}
	if err != nil {
		res.Verdict, res.Note = core.Inconclusive, "stream did not open: "+err.Error()
		return
	}
	if s, _ := wsSettle(socks, 45*time.Second, entered.Load); s != "ok" {
		res.Verdict, res.Note = core.Inconclusive, "handler did not start: "+s
		return
	}
	var fired atomic.Bool
	hook := func(size int) {
		if size >= 2048 && fired.CompareAndSwap(false, true) {
			if c.How == "deadline" {
				m.Fire()
			} else {
				m.Cancel()
			}
			time.Sleep(5 * time.Millisecond)
		}
	}
	socks.cli.hook.Store(&hook)
	sendRet := make(chan struct{})
	go func() { st.Send(wsPayload("victim", 5)); close(sendRet) }()
	isClosed := func(c <-chan struct{}) func() bool {
		return func() bool {
			select {
			case <-c:
				return true
			default:
				return false
			}
		}
	}
	switch s, snap := wsSettle(socks, 45*time.Second, isClosed(sendRet)); s {
	case "stuck":
		res.ViolateD("client-operation-hangs-after-cancel/websocket-send-half-written", map[string]any{"goat_goroutines": goatParked(snap)}, "%s while a send was half-way onto the socket: the send never returns", c.How)
		return
	case "timeout":
		res.Verdict, res.Note = core.Inconclusive, "send neither returned nor reached a final state within 45 s"
		return
	}
	socks.cli.hook.Store(nil)
	if !fired.Load() {
		res.Verdict, res.Note = core.Inconclusive, "no write of the stream was caught half-way"
		return
	}
	res.Stat("cancellations_checked", 1)
	// later receive: the context's status
	recvRet := make(chan struct{})
	var rerr error
	go func() { _, rerr = st.Recv(); close(recvRet) }()
	switch s, snap := wsSettle(socks, 45*time.Second, isClosed(recvRet)); s {
	case "stuck":
		res.ViolateD("later-operation-hangs-after-cancel/websocket-send-half-written", map[string]any{"goat_goroutines": goatParked(snap)}, "%s: a receive after the cancellation never returns", c.How)
		return
	case "timeout":
		res.Verdict, res.Note = core.Inconclusive, "receive neither returned nor reached a final state within 45 s"
		return
	}
	want := codes.Canceled
	if c.How == "deadline" {
		want = codes.DeadlineExceeded
	}
	if status.Code(rerr) != want {
		res.Violate("receive-after-cancel-wrong-result/"+c.How, "websocket: receive after %s returned %v, want code %v", c.How, rerr, want)
	}
	// the handler's context
	switch s, snap := wsSettle(socks, 60*time.Second, ctxDone.Load); s {
	case "stuck":
		res.ViolateD("handler-left-running-with-live-context/websocket-send-half-written", map[string]any{"goat_goroutines": goatParked(snap)}, "%s while a send was half-way onto the socket: in a final state (nothing in flight between the sockets) the handler's context is still live", c.How)
	case "timeout":
		res.Verdict, res.Note = core.Inconclusive, "handler context neither cancelled nor final state within 60 s"
	default:
		res.Stat("handler_contexts_checked", 1)
		res.Stat("ws_cancel_mid_write_cases", 1)
		res.Stat("resets_observed", 1)
	}
	res.NonTrivial = true
	res.Evals = 1
	res.Retire = true
	cancel()
}

// c02HTTPSlowReceiver: client and server talk over the shipped HTTP transport (two GoatOverHttp
// instances behind loopback servers, on a fake clock). The handler sends a burst and returns
// success; the caller starts receiving only after the burst has backed up into the transport and
// three seconds (of the transport's clock) have passed. Every Send succeeded: the caller must get
// every message in order and then io.EOF. Wall-clock bounds expiring are inconclusive.
func c02HTTPSlowReceiver(tier string, seed int64, idx, j int, res *core.Result) {
	burst := 5 + j%4
	kind := []string{"server", "bidi"}[j%2]
	// every fourth case is a long download instead: the caller receives promptly, the handler sends a
	// message every 3 s of the transport's clock, and the whole takes longer than the transport's
	// idle timeout (10 s, cleaner every second): a connection that only receives is in use, not idle
	long := j%4 == 2
	res.Sample = map[string]any{"family": "http-slow-receiver", "kind": kind, "burst": burst, "one_message_of_5MiB": j%2 == 1 && j%4 != 3, "http_response_lost_after_delivery": j%4 == 3, "long_download_across_idle_timeout": long}
	res.Retire, res.NonTrivial, res.Evals = true, true, 1
	setGMP([]int{4, 16}[j%2])
	ctx, cancel := context.WithTimeout(context.Background(), 90*time.Second)
	defer cancel()
	fc := clockwork.NewFakeClock()
	ident := func(src string) (string, error) { return src, nil }
	tsS := httptest.NewUnstartedServer(nil)
	tsC := httptest.NewUnstartedServer(nil)
	srvAddr, cliAddr := tsS.Listener.Addr().String(), tsC.Listener.Addr().String()
	goat.VerifResetTracking()
	impl := svc.NewImpl()
	srv := goat.NewServer(srvAddr)
	srv.RegisterService(&svc.Desc, impl)
	hopts := []goat.GoatOverHttpOption{goat.WithClock(fc)}
	if long {
		hopts = append(hopts, goat.WithConnectionTimeout(10*time.Second), goat.WithConnectionCleanupInterval(time.Second))
	}
	gS := goat.NewGoatOverHttp(func(id string, rw goat.RpcReadWriter) { go srv.Serve(ctx, rw) }, ident, hopts...)
	gC := goat.NewGoatOverHttp(func(id string, rw goat.RpcReadWriter) {}, ident, hopts...)
	// every fourth case: the HTTP response of the third POST towards the caller is lost after the
	// envelope was handed over (the connection breaks before the answer): nothing may arrive twice
	lossy := j%4 == 3
	var posts atomic.Int32
	tsS.Config.Handler = gS
	tsC.Config.Handler = http.HandlerFunc(func(w http.ResponseWriter, r *http.Request) {
		gC.ServeHTTP(w, r)
		if lossy && posts.Add(1) == 3 {
			panic(http.ErrAbortHandler)
		}
	})
	tsS.Start()
	tsC.Start()
	defer func() {
		cancel()
		gS.Cancel()
		gC.Cancel()
		// (in the background: httptest's Close waits for requests still in progress, and a POST the
		// scenario left undelivered never ends; the child process is retired after the case anyway)
		go func() { tsS.CloseClientConnections(); tsS.Close() }()
		go func() { tsC.CloseClientConnections(); tsC.Close() }()
	}()
	var sendErr atomic.Value
	handlerDone := make(chan struct{})
	tick := make(chan struct{})
	var gotN atomic.Int32
	tag := fmt.Sprintf("hsr%d", idx)
	big := j%2 == 1 && j%4 != 3 // one message of 5 MiB in the middle of the burst
	msg := func(i int) []byte {
		if big && i == 1 {
			return append([]byte("m1"), bytes.Repeat([]byte{'x'}, 5<<20)...)
		}
		return []byte(fmt.Sprintf("m%d", i))
	}
	short := func(b []byte) string {
		if len(b) > 8 {
			return fmt.Sprintf("%s..(%d bytes)", b[:2], len(b))
		}
		return string(b)
	}
	impl.SetStream(tag, func(t, k string, ss grpc.ServerStream) error {
		defer close(handlerDone)
		if k == "server" {
			ss.RecvMsg(new(svc.BV))
		}
		for i := 0; i < burst; i++ {
			if err := ss.SendMsg(&svc.BV{Value: msg(i)}); err != nil {
				sendErr.Store(err)
				return err
			}
			if long {
				select {
				case <-tick: // the driver has moved the transport's clock on
				case <-ss.Context().Done():
					return ss.Context().Err()
				}
			}
		}
		return nil
	})
	cc := goat.NewClientConn(gC.NewConnection(srvAddr), cliAddr, srvAddr)
	sctx, scancel := context.WithCancel(ctx)
	defer scancel()
	st, err := svc.Open(sctx, cc, kind, tag, []byte("q"))
	if err != nil {
		res.Verdict, res.Note = core.Inconclusive, "open over HTTP failed: "+err.Error()
		return
	}
	if lossy {
		// the server's connection ends when its POST fails; the HTTP transport gives the caller no
		// sign of that, so the caller gives up once the handler is gone
		go func() {
			select {
			case <-handlerDone:
				time.Sleep(300 * time.Millisecond)
			case <-time.After(20 * time.Second):
			}
			scancel()
		}()
	}
	if !long {
		// the caller is busy elsewhere: the burst backs up into the transport, and time passes there
		time.Sleep(500 * time.Millisecond)
		fc.Advance(3 * time.Second)
		time.Sleep(100 * time.Millisecond)
	} else {
		go func() {
			for i := 0; i < burst; i++ {
				for k := 0; k < 3000 && int(gotN.Load()) <= i && ctx.Err() == nil; k++ {
					time.Sleep(time.Millisecond)
				}
				for k := 0; k < 3; k++ { // 3 s of the transport's clock, a cleaner tick each second
					fc.Advance(time.Second)
					time.Sleep(15 * time.Millisecond)
				}
				select {
				case tick <- struct{}{}:
				case <-handlerDone:
					return
				case <-ctx.Done():
					return
				}
			}
		}()
	}
	var got []string
	var end error
	done := make(chan struct{})
	go func() {
		defer close(done)
		for {
			m, err := st.Recv()
			if err != nil {
				end = err
				return
			}
			got = append(got, short(m))
			gotN.Add(1)
		}
	}()
	select {
	case <-done:
	case <-time.After(30 * time.Second):
		res.Verdict, res.Note = core.Inconclusive, "receiver did not finish within 30 s (kernel I/O: no final-state argument)"
		return
	}
	if long && (end != io.EOF || len(got) != burst) {
		// nothing failed in this scenario but, possibly, the transport's idea of "idle"
		res.Violate("stream-in-use-ended-by-idle-timeout/http-long-download", "over the HTTP transport a download of %d messages, one every 3 s of the transport's clock (idle timeout 10 s), received promptly: the caller got %d messages and then %v", burst, len(got), end)
		return
	}
	select {
	case <-handlerDone:
	case <-time.After(10 * time.Second):
		res.Verdict, res.Note = core.Inconclusive, "handler did not finish within 10 s"
		return
	}
	if lossy {
		// the stream may well fail; what arrived must be the first messages, once each, in order
		ok := len(got) <= burst
		for i := 0; ok && i < len(got); i++ {
			ok = got[i] == short(msg(i))
		}
		if !ok {
			res.Violate("caller-sequence-differs/http-response-lost", "the HTTP response of one POST was lost after delivery: the caller received [%s] - a message arrived twice or out of order", strings.Join(got, ","))
		} else {
			res.Stat("http_slow_receiver_cases", 1)
			res.Stat("http_response_lost_cases", 1)
		}
		return
	}
	if e := sendErr.Load(); e != nil && !long {
		res.Verdict, res.Note = core.Inconclusive, fmt.Sprintf("a Send in the handler failed (not the scenario): %v", e)
		return
	}
	if long {
		// nothing failed in this scenario but, possibly, the transport's idea of "idle"
		if e := sendErr.Load(); e != nil || end != io.EOF || len(got) != burst {
			res.Violate("stream-in-use-ended-by-idle-timeout/http-long-download", "over the HTTP transport a download of %d messages, one every 3 s of the transport's clock (idle timeout 10 s), received promptly: the caller got %d messages and %v, the handler's Send error was %v", burst, len(got), end, e)
			return
		}
	}
	var want []string
	for i := 0; i < burst; i++ {
		want = append(want, short(msg(i)))
	}
	if strings.Join(got, ",") != strings.Join(want, ",") {
		res.Violate("caller-sequence-differs/http-slow-receiver", "over the HTTP transport every Send of the handler succeeded and it returned success, but the slow caller received [%s], sent [%s]", strings.Join(got, ","), strings.Join(want, ","))
	} else if end != io.EOF {
		res.Violate("successful-stream-reported-failed/http-slow-receiver", "over the HTTP transport the handler returned success but the caller observed %v", end)
	} else {
		res.Stat("http_slow_receiver_cases", 1)
		if long {
			res.Stat("http_long_download_cases", 1)
		}
	}
}

// c19WSAbandonedWrite: a Write on the websocket transport whose context ends while its frame is
// half-way onto the socket returns; the transport stays usable: later Writes return, and every
// envelope whose Write returned nil is read on the other end, in write order.
func c19WSAbandonedWrite(tier string, idx int, res *core.Result) {
	setGMP([]int{4, 16, 2}[idx%3])
	ctx, cancel := context.WithTimeout(context.Background(), 120*time.Second)
	defer cancel()
	sc, cl, socks, cleanup, err := wsPairSlow(ctx)
	if err != nil {
		res.Verdict, res.Note = core.Inconclusive, fmt.Sprintf("websocket setup: %v", err)
		return
	}
	defer cleanup()
	a, b := goat.NewGoatOverWebsocket(cl), goat.NewGoatOverWebsocket(sc)
	if idx%2 == 1 {
		a, b = b, a // the server end writes
		socks.cli, socks.srv = socks.srv, socks.cli
	}
	var rmu sync.Mutex
	var got []uint64
	startReading := make(chan struct{})
	go func() {
		select {
		case <-startReading:
		case <-ctx.Done():
			return
		}
		for {
			e, err := b.Read(ctx)
			if err != nil {
				return
			}
			rmu.Lock()
			got = append(got, e.GetId())
			rmu.Unlock()
		}
	}()
	wctx, wcancel := context.WithCancel(ctx)
	var fired atomic.Bool
	hook := func(size int) {
		if size >= 2048 && fired.CompareAndSwap(false, true) {
			wcancel()
			time.Sleep(5 * time.Millisecond)
		}
	}
	socks.cli.hook.Store(&hook)
	env := func(id uint64, n int) *wire.Rpc {
		return &wire.Rpc{Id: id, Header: &goatorepo.RequestHeader{Method: "/x/y", Source: "a", Destination: "b"}, Body: &goatorepo.Body{Data: bytes.Repeat([]byte{byte(id)}, n)}}
	}
	var accepted []uint64
	isClosed := func(c <-chan struct{}) func() bool {
		return func() bool {
			select {
			case <-c:
				return true
			default:
				return false
			}
		}
	}
	write := func(wc context.Context, e *wire.Rpc, what string) bool {
		done := make(chan struct{})
		var werr error
		go func() { werr = a.Write(wc, e); close(done) }()
		switch s, snap := wsSettle(socks, 45*time.Second, isClosed(done)); s {
		case "stuck":
			res.ViolateD("websocket-write-never-returns/"+what, map[string]any{"goat_goroutines": goatParked(snap)}, "%s: Write of envelope %d never returns: every goroutine blocked, nothing in flight between the sockets", what, e.GetId())
			return false
		case "timeout":
			res.Verdict, res.Note = core.Inconclusive, what+": Write neither returned nor reached a final state within 45 s"
			return false
		}
		if werr == nil {
			accepted = append(accepted, e.GetId())
		}
		return true
	}
	if !write(wctx, env(1, 200000), "write abandoned half-way") {
		return
	}
	socks.cli.hook.Store(nil)
	wcancel()
	if !fired.Load() {
		res.Verdict, res.Note = core.Inconclusive, "no write was caught half-way"
		return
	}
	close(startReading)
	for id := uint64(2); id <= 4; id++ {
		if !write(ctx, env(id, []int{10, 9000, 100}[id-2]), "write after an abandoned write") {
			return
		}
	}
	want := len(accepted)
	s, _ := wsSettle(socks, 45*time.Second, func() bool {
		rmu.Lock()
		defer rmu.Unlock()
		n := 0
		for _, g := range got {
			for _, a := range accepted {
				if g == a {
					n++
				}
			}
		}
		return n >= want
	})
	rmu.Lock()
	defer rmu.Unlock()
	if s == "timeout" {
		res.Verdict, res.Note = core.Inconclusive, "reader neither got the envelopes nor reached a final state within 45 s"
		return
	}
	// the accepted ones, in order (the abandoned one may or may not arrive, but only first)
	var seq []uint64
	for _, g := range got {
		if g != 1 || (len(accepted) > 0 && accepted[0] == 1) {
			seq = append(seq, g)
		}
	}
	if fmt.Sprint(seq) != fmt.Sprint(accepted) {
		res.Violate("websocket-envelope-lost-or-reordered-after-abandoned-write", "Writes that returned nil: %v; read on the other end: %v", accepted, got)
	} else {
		res.Stat("ws_abandoned_write_cases", 1)
	}
	res.Evals = 4
}

// c07HTTPCancel: over the shipped HTTP transport a streaming call is cancelled (or its deadline
// fires) while the POST carrying one of its sends is still in flight (held in front of the server's
// endpoint). The send returns, and the handler's context must be cancelled: the reset has to get
// through although the aborted POST has just failed. HTTP involves kernel I/O and net/http's own
// goroutines and timers, so there is no final-state argument here: 20 s without the handler's
// context ending, on loopback with nothing else going on, is taken as "never" (assumption recorded
// in the evidence); every other bound expiring is inconclusive.
func c07HTTPCancel(tier string, seed int64, idx int, c c07Case, res *core.Result) {
	setGMP(c.GMP)
	res.Retire, res.NonTrivial, res.Evals = true, true, 1
	ctx, cancel := context.WithTimeout(context.Background(), 120*time.Second)
	defer cancel()
	ident := func(src string) (string, error) { return src, nil }
	tsS := httptest.NewUnstartedServer(nil)
	tsC := httptest.NewUnstartedServer(nil)
	srvAddr, cliAddr := tsS.Listener.Addr().String(), tsC.Listener.Addr().String()
	goat.VerifResetTracking()
	impl := svc.NewImpl()
	srv := goat.NewServer(srvAddr)
	srv.RegisterService(&svc.Desc, impl)
	gS := goat.NewGoatOverHttp(func(id string, rw goat.RpcReadWriter) { go srv.Serve(ctx, rw) }, ident)
	gC := goat.NewGoatOverHttp(func(id string, rw goat.RpcReadWriter) {}, ident)
	var armed atomic.Bool
	held := make(chan struct{}, 1)
	release := make(chan struct{})
	tsS.Config.Handler = http.HandlerFunc(func(w http.ResponseWriter, r *http.Request) {
		if armed.CompareAndSwap(true, false) {
			held <- struct{}{}
			<-release
		}
		gS.ServeHTTP(w, r)
	})
	tsC.Config.Handler = gC
	tsS.Start()
	tsC.Start()
	defer func() {
		cancel()
		gS.Cancel()
		gC.Cancel()
		// (in the background: httptest's Close waits for requests still in progress, and a POST the
		// scenario left undelivered never ends; the child process is retired after the case anyway)
		go func() { tsS.CloseClientConnections(); tsS.Close() }()
		go func() { tsC.CloseClientConnections(); tsC.Close() }()
	}()
	var entered, ctxDone atomic.Bool
	impl.DefS = func(tag, kind string, ss grpc.ServerStream) error {
		if ss.RecvMsg(new(svc.BV)) == nil {
			entered.Store(true)
		}
		for ss.RecvMsg(new(svc.BV)) == nil {
		}
		select {
		case <-ss.Context().Done():
			ctxDone.Store(true)
		case <-ctx.Done():
		}
		return ss.Context().Err()
	}
	cc := goat.NewClientConn(gC.NewConnection(srvAddr), cliAddr, srvAddr)
	m := svc.NewManualCtx(ctx)
	st, err := svc.Open(m, cc, "bidi", fmt.Sprintf("hc%d", idx), nil)
	if err == nil {
		err = st.Send([]byte("first"))
	}
	if err != nil {
		res.Verdict, res.Note = core.Inconclusive, "stream did not open over HTTP: "+err.Error()
		return
	}
	waitFor := func(cond func() bool, d time.Duration) bool {
		dl := time.Now().Add(d)
		for !cond() {
			if time.Now().After(dl) {
				return false
			}
			time.Sleep(2 * time.Millisecond)
		}
		return true
	}
	if !waitFor(entered.Load, 15*time.Second) {
		res.Verdict, res.Note = core.Inconclusive, "handler did not start within 15 s"
		return
	}
	armed.Store(true)
	sendRet := make(chan struct{})
	go func() { st.Send([]byte("second")); close(sendRet) }()
	select {
	case <-held:
	case <-time.After(15 * time.Second):
		res.Verdict, res.Note = core.Inconclusive, "the send's POST did not reach the server endpoint within 15 s"
		close(release)
		return
	}
	if c.How == "deadline" {
		m.Fire()
	} else {
		m.Cancel()
	}
	select {
	case <-sendRet:
	case <-time.After(15 * time.Second):
		res.Verdict, res.Note = core.Inconclusive, "the cancelled send did not return within 15 s"
		close(release)
		return
	}
	close(release)
	res.Stat("cancellations_checked", 1)
	if !waitFor(ctxDone.Load, 20*time.Second) {
		res.Violate("handler-left-running-with-live-context/http-send-in-flight", "%s while the POST of a send was in flight over the HTTP transport: 20 s later the handler's context is still live (the reset never arrived)", c.How)
		return
	}
	res.Stat("handler_contexts_checked", 1)
	res.Stat("http_cancel_during_send_cases", 1)
	res.Stat("resets_observed", 1)
}

package props

import (
	"context"
	"fmt"
	"math"
	"math/big"
	"strings"
	"sync"
	"time"

	goat "github.com/avos-io/goat"
	"github.com/avos-io/goat/gen/goatorepo"
	"google.golang.org/grpc"
	"google.golang.org/protobuf/proto"

	"goatverif/bed"
	"goatverif/core"
	"goatverif/svc"
	"goatverif/wire"
)

// C08: caller deadlines reach the handler; timeout header values mean what they say.

var c08Units = map[byte]time.Duration{'H': time.Hour, 'M': time.Minute, 'S': time.Second, 'm': time.Millisecond, 'u': time.Microsecond, 'n': time.Nanosecond}
var c08UnitList = []byte{'H', 'M', 'S', 'm', 'u', 'n'}

// refParse is the reference: (conformant, overlong, value)
func refParse(s string) (class string, want time.Duration) {
	if len(s) < 2 {
		return "malformed", 0
	}
	u, ok := c08Units[s[len(s)-1]]
	if !ok {
		return "malformed", 0
	}
	d := s[:len(s)-1]
	for _, ch := range []byte(d) {
		if ch < '0' || ch > '9' {
			return "malformed", 0
		}
	}
	v, _ := new(big.Int).SetString(d, 10)
	v.Mul(v, big.NewInt(int64(u)))
	w := time.Duration(math.MaxInt64)
	if v.IsInt64() {
		w = time.Duration(v.Int64())
	}
	if len(d) > 8 {
		return "overlong", w
	}
	return "conformant", w
}

func c08CheckParser(s string, res *core.Result) {
	class, want := refParse(s)
	got, ok := goat.VerifParseGrpcTimeout(s)
	res.Stat("parser_inputs_"+class, 1)
	switch class {
	case "conformant":
		if !ok || got != want {
			res.Violate("timeout-value-misread/"+unitClass(s), "grpc-timeout %q is conformant and means %v, parsed as (%v, %v)", s, want, got, ok)
		}
	case "overlong":
		if ok && got != want {
			res.Violate("overlong-timeout-misread", "grpc-timeout %q (over-long) must be ignored or read as %v, parsed as %v", s, want, got)
		}
	default:
		if ok {
			res.Violate("malformed-timeout-accepted/"+malClass(s), "malformed grpc-timeout %q was read as %v instead of being ignored", s, got)
		}
	}
}

func unitClass(s string) string {
	_, want := refParse(s)
	if want == time.Duration(math.MaxInt64) {
		return "saturating"
	}
	return "exact"
}

func malClass(s string) string {
	switch {
	case s == "":
		return "empty"
	case strings.HasPrefix(s, "-"):
		return "negative-sign"
	case strings.HasPrefix(s, "+"):
		return "plus-sign"
	case strings.ContainsAny(s, " \t"):
		return "space"
	}
	return "other"
}

type c08Case struct {
	Family string `json:"family"` // parser-exhaustive | parser-boundary | parser-random | parser-malformed | e2e | header
	Unit   string `json:"unit,omitempty"`
	From   int    `json:"from,omitempty"`
	To     int    `json:"to,omitempty"`
	Kind   string `json:"rpc_kind,omitempty"`
	N      int    `json:"n,omitempty"`
}

func c08List(tier string) []c08Case {
	var out []c08Case
	for _, u := range c08UnitList {
		out = append(out, c08Case{Family: "parser-exhaustive", Unit: string(u), From: 0, To: 9999})
		out = append(out, c08Case{Family: "parser-boundary", Unit: string(u)})
	}
	out = append(out, c08Case{Family: "parser-malformed"})
	nr := tierN(tier, 4, 100)
	for i := 0; i < nr; i++ {
		out = append(out, c08Case{Family: "parser-random", N: 100000})
	}
	for _, k := range []string{"unary", "client", "server", "bidi"} {
		out = append(out, c08Case{Family: "e2e", Kind: k})
		out = append(out, c08Case{Family: "header", Kind: k})
	}
	return out
}

var c08Timeouts = []time.Duration{-time.Second, 0, 500 * time.Microsecond, time.Millisecond, 1500 * time.Microsecond, 10 * time.Millisecond,
	time.Second, time.Hour, 99999999 * time.Millisecond, 100000000 * time.Millisecond, 10000 * time.Hour, -1 /* marker: no deadline */}

func c08Run(tier string, seed int64, idx int) *core.Result {
	c := c08List(tier)[idx]
	r := rng(seed, idx, "c08")
	res := &core.Result{Verdict: core.Held, Sample: c, Sig: fmt.Sprintf("%+v/%d", c, idx), NonTrivial: true}
	switch c.Family {
	case "parser-exhaustive":
		// every value of 1..4 digits (with every leading-zero spelling up to 4 digits)
		n := int64(0)
		for digits := 1; digits <= 4; digits++ {
			max := 1
			for i := 0; i < digits; i++ {
				max *= 10
			}
			for v := 0; v < max; v++ {
				c08CheckParser(fmt.Sprintf("%0*d%s", digits, v, c.Unit), res)
				n++
			}
		}
		res.Evals, res.DistinctNT, res.NonTrivial = n, n, false
	case "parser-boundary":
		var ins []string
		for digits := 1; digits <= 8; digits++ {
			p := int64(1)
			for i := 1; i < digits; i++ {
				p *= 10
			}
			for _, v := range []int64{0, 1, p, p*10 - 1, p + 1, p*10 - 2, p * 5} {
				if v < p*10 {
					ins = append(ins, fmt.Sprintf("%0*d%s", digits, v, c.Unit))
					ins = append(ins, fmt.Sprintf("%d%s", v, c.Unit))
				}
			}
		}
		// overflow thresholds for this unit and their neighbours (over-long for small units)
		u := int64(c08Units[c.Unit[0]])
		th := math.MaxInt64 / u
		for _, d := range []int64{-2, -1, 0, 1, 2} {
			ins = append(ins, fmt.Sprintf("%d%s", th+d, c.Unit))
		}
		for _, s := range []string{"99999999", "100000000", "999999999", "9223372036854775807", "9223372036854775808", "18446744073709551616", "99999999999999999999999", "000000000000001"} {
			ins = append(ins, s+c.Unit)
		}
		for _, s := range ins {
			c08CheckParser(s, res)
		}
		res.Evals, res.DistinctNT, res.NonTrivial = int64(len(ins)), int64(len(ins)), false
	case "parser-random":
		for i := 0; i < c.N; i++ {
			digits := 1 + r.Intn(8)
			if r.Intn(10) == 0 {
				digits = 9 + r.Intn(12)
			}
			var sb strings.Builder
			for j := 0; j < digits; j++ {
				sb.WriteByte(byte('0' + r.Intn(10)))
			}
			sb.WriteByte(c08UnitList[r.Intn(6)])
			c08CheckParser(sb.String(), res)
		}
		res.Evals = int64(c.N)
	case "parser-malformed":
		base := []string{"", "H", "S", "5", "55", "5x", "5h", "5s", "5U", "5N", "5 S", " 5S", "5S ", "+5S", "-5S", "-0S", "+0m", "5.0S", "0x5S", "1e3S", "５S", "5SS", "5mS", "S5", "--5S", "5-S",
			"\t5S", "5\x00S", "٣S", "1_000S", "1,000S", "0b1S", "5µ", "5μ", "∞S", "NaNS", "-9223372036854775808n", "-1H", "+99999999H", "1 H", "H1H"}
		ins := append([]string{}, base...)
		// mutations of valid values
		for i := 0; i < 600; i++ {
			v := fmt.Sprintf("%d%c", r.Intn(100000000), c08UnitList[r.Intn(6)])
			b := []byte(v)
			switch r.Intn(6) {
			case 0:
				b[r.Intn(len(b)-1)] = " +-.eExX_,:/\\"[r.Intn(13)]
			case 1:
				b[len(b)-1] = "hsMUNdDwWyY0123456789 "[r.Intn(22)]
			case 2:
				b = append([]byte{"+- \t"[r.Intn(4)]}, b...)
			case 3:
				b = append(b, " \n\x00S"[r.Intn(4)])
			case 4:
				k := r.Intn(len(b))
				b = append(b[:k], append([]byte{byte(r.Intn(256))}, b[k:]...)...)
			case 5:
				b = b[:len(b)-1]
			}
			ins = append(ins, string(b))
		}
		for _, s := range ins {
			c08CheckParser(s, res)
		}
		res.Evals, res.DistinctNT, res.NonTrivial = int64(len(ins)), int64(len(base)), false
	case "e2e":
		c08E2E(tier, c, res)
	case "header":
		c08Header(tier, c, r.Int63(), res)
	}
	return res
}

type c08Obs struct {
	t1     time.Time
	dl     time.Time
	hasDl  bool
	called bool
}

func c08E2E(tier string, c c08Case, res *core.Result) {
	h := bed.NewHooks()
	h.Install()
	b := bed.New(bed.Opts{Serialise: true, Cap: 1})
	cc := b.Conns[0]
	var mu sync.Mutex
	obs := map[string]*c08Obs{}
	record := func(ctx context.Context, tag string) {
		o := &c08Obs{t1: time.Now(), called: true}
		o.dl, o.hasDl = ctx.Deadline()
		mu.Lock()
		obs[tag] = o
		mu.Unlock()
	}
	b.Impl.DefU = func(ctx context.Context, tag string, req []byte) ([]byte, error) { record(ctx, tag); return req, nil }
	b.Impl.DefS = func(tag, kind string, ss grpc.ServerStream) error { record(ss.Context(), tag); return nil }
	for i, to := range c08Timeouts {
		tag := fmt.Sprintf("e2e-%s-%d", c.Kind, i)
		ctx := context.Background()
		var cancel context.CancelFunc = func() {}
		t0 := time.Now()
		var D time.Time
		hasD := to != -1
		if hasD {
			D = t0.Add(to)
			ctx, cancel = context.WithDeadline(ctx, D)
		}
		done := make(chan struct{})
		go func() {
			defer close(done)
			if c.Kind == "unary" {
				svc.Invoke(ctx, cc, tag, []byte("x"))
				return
			}
			s, err := svc.Open(ctx, cc, c.Kind, tag, []byte("x"))
			if err != nil || s == nil {
				return
			}
			s.CloseSend()
			for {
				if _, err := s.Recv(); err != nil {
					return
				}
			}
		}()
		select {
		case <-done:
		case <-time.After(watchdog(tier)):
			res.Verdict, res.Note = core.Inconclusive, "call did not return (watchdog)"
		}
		quiet(tier) // a handler invoked after the caller gave up still records
		cancel()
		mu.Lock()
		o := obs[tag]
		mu.Unlock()
		res.Stat("e2e_calls", 1)
		if o == nil {
			res.Stat("e2e_handler_not_invoked_caller_deadline_already_over", 1)
			continue
		}
		res.Stat("e2e_handler_deadlines_observed", 1)
		if !hasD {
			if o.hasDl {
				res.Violate("deadline-invented/"+c.Kind, "caller had no deadline but the %s handler's context has one (%v from entry)", c.Kind, o.dl.Sub(o.t1))
			}
			continue
		}
		if !o.hasDl {
			res.Violate("deadline-not-conveyed/"+c.Kind, "caller timeout %v: the %s handler's context has no deadline", to, c.Kind)
			continue
		}
		transit := o.t1.Sub(t0)
		lower := D.Add(-time.Millisecond)
		upper := D.Add(transit)
		if alt := o.t1.Add(time.Millisecond); alt.After(upper) {
			upper = alt
		}
		if o.dl.Before(lower) {
			res.Violate("handler-deadline-too-early/"+c.Kind, "caller timeout %v: handler deadline is %v earlier than the caller's (more than 1ms)", to, D.Sub(o.dl))
		}
		if o.dl.After(upper) {
			res.Violate("handler-deadline-too-late/"+c.Kind, "caller timeout %v: handler deadline is %v later than the caller's; transit was %v", to, o.dl.Sub(D), transit)
		}
	}
	res.Evals = int64(len(c08Timeouts))
	finish(tier, b, h, res)
}

func c08Header(tier string, c c08Case, salt int64, res *core.Result) {
	impl := svc.NewImpl()
	srv := goat.NewServer("srv")
	srv.RegisterService(&svc.Desc, impl)
	l := wire.NewLink(1, true)
	ctx, cancel := context.WithCancel(context.Background())
	defer cancel()
	go srv.Serve(ctx, l.B)
	wire.NewPeer(ctx, l.A, nil)
	var mu sync.Mutex
	obs := map[string]*c08Obs{}
	record := func(ctx context.Context, tag string) {
		o := &c08Obs{t1: time.Now(), called: true}
		o.dl, o.hasDl = ctx.Deadline()
		mu.Lock()
		obs[tag] = o
		mu.Unlock()
	}
	impl.DefU = func(ctx context.Context, tag string, req []byte) ([]byte, error) { record(ctx, tag); return req, nil }
	impl.DefS = func(tag, kind string, ss grpc.ServerStream) error { record(ss.Context(), tag); return nil }
	vals := []string{"1H", "7M", "90S", "1500m", "250000u", "999999999n", "99999999H", "99999999M", "99999999S", "99999999m", "00000005S", "36000000000m", "8H", "1S",
		"", "S", "5", "-5S", "+5S", "5 S", "5s", "5h", "1e3S", "0x5S", "5.5S", " 5S", "5S "}
	keys := []string{"grpc-timeout", "GRPC-Timeout", "Grpc-TIMEOUT"}
	body, _ := proto.Marshal(&svc.BV{Value: []byte("x")})
	id := uint64(0)
	method := map[string]string{"unary": svc.MUnary, "client": svc.MClient, "server": svc.MServer, "bidi": svc.MBidi}[c.Kind]
	n := 0
	for _, k := range keys {
		for _, v := range vals {
			id++
			n++
			tag := fmt.Sprintf("h%d", id)
			rq := &wire.Rpc{Id: id, Header: &goatorepo.RequestHeader{Method: method, Source: "c0", Destination: "srv",
				Headers: []*goatorepo.KeyValue{{Key: svc.TagKey, Value: tag}, {Key: k, Value: v}}}}
			if c.Kind == "unary" {
				rq.Body = &goatorepo.Body{Data: body}
			}
			tSent := time.Now()
			if err := l.A.Write(ctx, rq); err != nil {
				res.Verdict, res.Note = core.Inconclusive, "peer write failed"
				break
			}
			st, _ := settle(tier, func() bool { mu.Lock(); defer mu.Unlock(); return obs[tag] != nil })
			if st != "ok" {
				res.Violate("request-with-timeout-header-not-served", "request with %s: %q did not reach a handler", k, v)
				continue
			}
			mu.Lock()
			o := obs[tag]
			mu.Unlock()
			class, want := refParse(v)
			res.Stat("header_requests_"+class, 1)
			switch class {
			case "conformant", "overlong":
				if class == "overlong" && !o.hasDl {
					break // ignoring an over-long value is allowed
				}
				if !o.hasDl {
					res.Violate("timeout-header-ignored", "%s: %q is conformant but the handler has no deadline", k, v)
					break
				}
				// Dh - dur(v) must lie in [t_sent, t_handler]; for saturating values the deadline is simply far away
				if want > 1000000*time.Hour {
					if o.dl.Sub(o.t1) < 1000000*time.Hour {
						res.Violate("timeout-header-misread/saturating", "%s: %q means at least %v, handler deadline is only %v away", k, v, want, o.dl.Sub(o.t1))
					}
					break
				}
				base := o.dl.Add(-want)
				if base.Before(tSent.Add(-time.Microsecond)) || base.After(o.t1.Add(time.Microsecond)) {
					res.Violate("timeout-header-misread/exact", "%s: %q means %v, but the handler's deadline is %v after the request was sent", k, v, want, o.dl.Sub(tSent))
				}
			default:
				if o.hasDl {
					res.Violate("malformed-timeout-header-applied/"+malClass(v), "%s: %q is malformed but the handler got a deadline %v from entry", k, v, o.dl.Sub(o.t1))
				}
			}
		}
	}
	// two timeout headers in one request: a malformed value is ignored, it must not hide a valid one
	for _, bad := range []string{"oops", "", "5", "-5S", "5.5S", "5X"} {
		for _, order := range []string{"malformed-first", "valid-first"} {
			id++
			n++
			tag := fmt.Sprintf("h%d", id)
			kvs := []*goatorepo.KeyValue{{Key: svc.TagKey, Value: tag}}
			if order == "malformed-first" {
				kvs = append(kvs, &goatorepo.KeyValue{Key: "grpc-timeout", Value: bad}, &goatorepo.KeyValue{Key: "GRPC-Timeout", Value: "7M"})
			} else {
				kvs = append(kvs, &goatorepo.KeyValue{Key: "GRPC-Timeout", Value: "7M"}, &goatorepo.KeyValue{Key: "grpc-timeout", Value: bad})
			}
			rq := &wire.Rpc{Id: id, Header: &goatorepo.RequestHeader{Method: method, Source: "c0", Destination: "srv", Headers: kvs}}
			if c.Kind == "unary" {
				rq.Body = &goatorepo.Body{Data: body}
			}
			tSent := time.Now()
			if err := l.A.Write(ctx, rq); err != nil {
				break
			}
			if st, _ := settle(tier, func() bool { mu.Lock(); defer mu.Unlock(); return obs[tag] != nil }); st != "ok" {
				res.Violate("request-with-timeout-header-not-served", "request with two timeout headers (%s, malformed %q) did not reach a handler", order, bad)
				continue
			}
			mu.Lock()
			o := obs[tag]
			mu.Unlock()
			res.Stat("header_requests_two_values", 1)
			base := o.dl.Add(-7 * time.Minute)
			if !o.hasDl || base.Before(tSent.Add(-time.Microsecond)) || base.After(o.t1.Add(time.Microsecond)) {
				res.Violate("malformed-timeout-hides-valid-one/"+order, "headers grpc-timeout=%q and GRPC-Timeout=7M (%s): handler deadline present=%v, %v after the request was sent (want 7m)", bad, order, o.hasDl, o.dl.Sub(tSent))
			}
		}
	}
	res.Evals = int64(n)
	res.Stat("header_requests", int64(n))
	cancel()
	l.Kill()
	srv.Stop()
	if left, final := bed.Hygiene(watchdog(tier)); !final || len(left) > 0 {
		res.Retire = true
	}
}

func init() {
	core.Register(&core.Prop{
		ID:         "C08",
		Level:      "exploration",
		Rule:       "parser: per unit ALL values of 1..4 digits in every zero-padded spelling (6 x 11110), boundary grid for digit counts 1..8 (0, 1, 10^k, 10^k-1, ...), overflow thresholds +-2, over-long strings, ~640 malformed strings (fixed list + seeded mutations), seeded random conformant/over-long values (quick 4x10^5, thorough 10^7) - each checked against a big.Int reference; end to end: 12 caller timeouts (already expired .. 10^4 h, and none) x 4 RPC kinds, handler deadline must satisfy D-1ms <= Dh <= max(D+transit, t_entry+1ms) on recorded timestamps; header semantics: 3 key spellings x 27 values x 4 RPC kinds from a scripted peer. distinct_nontrivial counts distinct parser inputs of the enumerated families plus distinct case descriptors of the others.",
		Plan:       func(tier string, seed int64) int { return len(c08List(tier)) },
		Run:        c08Run,
		Exhaustive: func(string) bool { return false },
		RequiredStats: func(string) []string {
			return []string{"parser_inputs_conformant", "parser_inputs_overlong", "parser_inputs_malformed", "e2e_handler_deadlines_observed", "header_requests_conformant", "header_requests_malformed"}
		},
		Assumptions: []string{"end-to-end bounds are inequalities between recorded monotonic timestamps whose slack is the measured transit time"},
	})
}

package props

import (
	"context"
	"fmt"
	"io"
	"strings"
	"sync"
	"sync/atomic"
	"time"

	goat "github.com/avos-io/goat"
	"google.golang.org/grpc"
	"google.golang.org/grpc/codes"
	"google.golang.org/grpc/metadata"
	"google.golang.org/grpc/stats"
	"google.golang.org/grpc/status"

	"github.com/avos-io/goat/gen/goatorepo"
	"google.golang.org/protobuf/proto"

	"goatverif/bed"
	"goatverif/core"
	"goatverif/svc"
	"goatverif/wire"
)

// C20: interceptors and stats handlers see every RPC exactly once, in order.

type c20Case struct {
	SrvChain  int    `json:"server_chain_length"`
	SrvSingle bool   `json:"server_single_not_chained"`
	CliIcpt   bool   `json:"client_interceptor"`
	StatsSrv  int    `json:"server_stats_handlers"`
	StatsCli  int    `json:"client_stats_handlers"`
	Kind      string `json:"kind"`
	Outcome   string `json:"outcome"`
}

var c20Outcomes = []string{"ok", "handler-error", "cancel", "deadline", "transport-failure", "failed-open", "call-on-failed-connection", "cancel-with-response-uncollected", "handler-error-eof", "early-return-late-empty-messages", "open-lost-server-resets"}

func c20List(tier string) []c20Case {
	var out []c20Case
	i := 0
	for chain := 1; chain <= 6; chain++ {
		for _, kind := range []string{"unary", "client", "server", "bidi"} {
			for _, oc := range c20Outcomes {
				if oc == "open-lost-server-resets" && kind == "unary" {
					continue // a lost unary request is answered by nobody
				}
				i++
				if tier != "thorough" && chain != 1 && chain != 6 && (i%3 != 0) {
					continue
				}
				out = append(out, c20Case{SrvChain: chain, SrvSingle: chain == 1 && i%2 == 0, CliIcpt: i%2 == 0, StatsSrv: 1 + i%3, StatsCli: 1 + (i/3)%3, Kind: kind, Outcome: oc})
				if tier == "thorough" {
					out = append(out, c20Case{SrvChain: chain, SrvSingle: chain == 1, CliIcpt: i%2 == 1, StatsSrv: 1 + (i+1)%3, StatsCli: 1 + (i/3+1)%3, Kind: kind, Outcome: oc})
				}
			}
		}
	}
	for i, v := range []string{"idle", "unary-backlog", "stream-backlog"} {
		for j, cause := range []string{"stop", "write-failure", "read-failure"} {
			if v != "idle" && cause == "read-failure" {
				continue // the read loop is parked in dispatch and does not read
			}
			out = append(out, c20Case{Kind: "conn-end/" + v, Outcome: cause, StatsSrv: 1 + (i+j)%3})
		}
	}
	for i, cause := range []string{"read-failure", "stop", "write-failure"} {
		out = append(out, c20Case{Kind: "taken-not-registered/unary", Outcome: cause, StatsSrv: 1 + i%2})
	}
	for i, v := range []string{"0m", "1n", "0S"} {
		out = append(out, c20Case{Kind: "expired-on-arrival/" + v, Outcome: "deadline-already-over", SrvChain: 1 + i, StatsSrv: 1 + i%2})
	}
	return out
}

// c20Expired: a unary request whose timeout is over the moment it arrives (a raw envelope: goat's
// own client never sends less than one millisecond). It is an RPC like any other: every server
// interceptor runs exactly once around the handler, every stats handler sees one Begin and one End.
func c20Expired(tier string, seed int64, idx int, c c20Case, res *core.Result) {
	rec := &c20Rec{}
	var mu sync.Mutex
	entered := make([]int, c.SrvChain+1)
	handlerRuns := 0
	var uis []grpc.UnaryServerInterceptor
	for i := 1; i <= c.SrvChain; i++ {
		uis = append(uis, func(ctx context.Context, req any, info *grpc.UnaryServerInfo, handler grpc.UnaryHandler) (any, error) {
			mu.Lock()
			entered[i]++
			mu.Unlock()
			return handler(ctx, req)
		})
	}
	sopts := []goat.ServerOption{goat.ChainUnaryInterceptor(uis...)}
	for j := 0; j < c.StatsSrv; j++ {
		sopts = append(sopts, goat.StatsHandler(&c20Stats{rec, "s", j}))
	}
	h := bed.NewHooks()
	h.Install()
	impl := svc.NewImpl()
	srv := goat.NewServer("srv", sopts...)
	srv.RegisterService(&svc.Desc, impl)
	impl.DefU = func(ctx context.Context, tag string, req []byte) ([]byte, error) {
		mu.Lock()
		handlerRuns++
		mu.Unlock()
		return req, ctx.Err()
	}
	l := wire.NewLink(2, idx%2 == 0)
	ctx, cancel := context.WithCancel(context.Background())
	defer cancel()
	served := make(chan struct{})
	go func() { srv.Serve(ctx, l.B); close(served) }()
	var pmu sync.Mutex
	replies := 0
	wire.NewPeer(ctx, l.A, func(_ *wire.Peer, in *wire.Rpc) {
		pmu.Lock()
		replies++
		pmu.Unlock()
	})
	body, _ := proto.Marshal(&svc.BV{Value: []byte("x")})
	to := strings.TrimPrefix(c.Kind, "expired-on-arrival/")
	l.A.Write(ctx, &wire.Rpc{Id: 1, Header: &goatorepo.RequestHeader{Method: svc.MUnary, Source: "c0", Destination: "srv",
		Headers: []*goatorepo.KeyValue{{Key: svc.TagKey, Value: "x"}, {Key: "grpc-timeout", Value: to}}}, Body: &goatorepo.Body{Data: body}})
	st, _ := settle(tier, func() bool { pmu.Lock(); defer pmu.Unlock(); return replies >= 1 })
	time.Sleep(5 * time.Millisecond)
	quiet(tier)
	where := fmt.Sprintf("unary request with grpc-timeout %s, server chain %d", to, c.SrvChain)
	if st != "ok" {
		res.Violate("unary-request-without-response/deadline-already-over", "%s: no response", where)
	}
	mu.Lock()
	for i := 1; i <= c.SrvChain; i++ {
		if entered[i] != 1 {
			res.Violate("server-interceptor-order", "%s: interceptor %d ran %d times (the handler ran %d times): an RPC whose deadline is already over is still an RPC", where, i, entered[i], handlerRuns)
			break
		}
	}
	mu.Unlock()
	rec.mu.Lock()
	for j := 0; j < c.StatsSrv; j++ {
		b, e := 0, 0
		for _, ev := range rec.evs {
			if ev.Side == "s" && ev.Handler == j && !ev.Conn {
				if ev.Type == "*stats.Begin" {
					b++
				}
				if ev.Type == "*stats.End" {
					e++
				}
			}
		}
		if b != 1 || e != 1 {
			res.Violate("stats-begin-end-count/s/deadline-already-over", "%s: server stats handler %d saw %d Begin and %d End", where, j, b, e)
		}
	}
	rec.mu.Unlock()
	res.Stat("expired_on_arrival_cases", 1)
	res.Stat("rpcs", 1)
	cancel()
	l.Kill()
	settle(tier, func() bool {
		select {
		case <-served:
			return true
		default:
			return false
		}
	})
	bed.Uninstall()
	h.Fold(res)
	res.Retire = true
}

// c20ConnEnd: exactly one ConnBegin and one ConnEnd per served connection, also when the connection
// ends while the read loop is parked in dispatch (all unary workers busy with a 9th request pending,
// or a stream whose handler does not read and whose queue is full).
func c20ConnEnd(tier string, seed int64, idx int, c c20Case, res *core.Result) {
	rec := &c20Rec{}
	var sopts []goat.ServerOption
	for j := 0; j < c.StatsSrv; j++ {
		sopts = append(sopts, goat.StatsHandler(&c20Stats{rec, "s", j}))
	}
	h := bed.NewHooks()
	h.Install()
	impl := svc.NewImpl()
	srv := goat.NewServer("srv", sopts...)
	srv.RegisterService(&svc.Desc, impl)
	gates := NewGates()
	impl.DefU = func(ctx context.Context, tag string, req []byte) ([]byte, error) { gates.Wait("hold"); return req, nil }
	impl.DefS = func(tag, kind string, ss grpc.ServerStream) error { gates.Wait("hold"); return nil }
	l := wire.NewLink(0, false)
	ctx, cancel := context.WithCancel(context.Background())
	defer cancel()
	served := make(chan struct{})
	go func() { srv.Serve(ctx, l.B); close(served) }()
	wire.NewPeer(ctx, l.A, nil)
	body, _ := proto.Marshal(&svc.BV{Value: []byte("x")})
	var reqs []*wire.Rpc
	switch c.Kind {
	case "conn-end/unary-backlog":
		for i := 0; i < 10; i++ {
			reqs = append(reqs, &wire.Rpc{Id: uint64(i + 1), Header: &goatorepo.RequestHeader{Method: svc.MUnary, Source: "c0", Destination: "srv"}, Body: &goatorepo.Body{Data: body}})
		}
	case "conn-end/stream-backlog":
		hd := func() *goatorepo.RequestHeader {
			return &goatorepo.RequestHeader{Method: svc.MBidi, Source: "c0", Destination: "srv"}
		}
		reqs = append(reqs, &wire.Rpc{Id: 1, Header: hd()})
		for i := 0; i < 3; i++ {
			reqs = append(reqs, &wire.Rpc{Id: 1, Header: hd(), Body: &goatorepo.Body{Data: body}})
		}
	}
	go func() {
		for _, r := range reqs {
			if l.A.Write(ctx, r) != nil {
				return
			}
		}
	}()
	quiet(tier) // handlers parked, read loop parked in dispatch (or idle in Read)
	switch c.Outcome {
	case "stop":
		srv.Stop()
	case "write-failure":
		// a response is needed for a write to fail: let one handler answer into a failing transport
		l.B.FailWrite()
		if c.Kind == "conn-end/idle" {
			go l.A.Write(ctx, &wire.Rpc{Id: 99, Header: &goatorepo.RequestHeader{Method: svc.MUnary, Source: "c0", Destination: "srv",
				Headers: []*goatorepo.KeyValue{{Key: svc.TagKey, Value: "free"}}}, Body: &goatorepo.Body{Data: body}})
			impl.SetUnary("free", func(ctx context.Context, tag string, req []byte) ([]byte, error) { return req, nil })
		} else {
			srv.Stop() // with every worker parked nothing is written; Stop ends the connection while the write side is already broken
		}
	case "read-failure":
		l.B.FailRead()
	}
	st, snap := settle(tier, func() bool {
		select {
		case <-served:
			return true
		default:
			return false
		}
	})
	if st == "stuck" {
		gates.OpenAll()
		st, snap = settle(tier, func() bool {
			select {
			case <-served:
				return true
			default:
				return false
			}
		})
	}
	gates.OpenAll()
	if st != "ok" {
		if st == "stuck" {
			res.ViolateD("serve-does-not-return", map[string]any{"goat_goroutines": goatParked(snap)}, "%s, %s: Serve did not return", c.Kind, c.Outcome)
		} else {
			res.Verdict, res.Note = core.Inconclusive, "watchdog"
		}
	} else {
		quiet(tier)
		rec.mu.Lock()
		for j := 0; j < c.StatsSrv; j++ {
			nb, ne := 0, 0
			for _, e := range rec.evs {
				if e.Conn && e.Side == "s" && e.Handler == j {
					if e.Type == "*stats.ConnBegin" {
						nb++
					}
					if e.Type == "*stats.ConnEnd" {
						ne++
					}
				}
			}
			if nb != 1 || ne != 1 {
				res.Violate("conn-stats-count/"+c.Kind, "%s ended by %s: server stats handler %d saw %d ConnBegin and %d ConnEnd (want one each)", c.Kind, c.Outcome, j, nb, ne)
			}
		}
		rec.mu.Unlock()
		res.Stat("conn_end_scenarios", 1)
	}
	cancel()
	l.Kill()
	left, final := bed.Hygiene(watchdog(tier))
	bed.Uninstall()
	h.Fold(res)
	if !final || len(left) > 0 {
		res.Retire = true
	}
}

// c20GateCtx is the context given to Serve: it is never cancelled, and the first goroutine that asks
// for its Done channel - a unary worker deriving the call's context from it, after it took the
// request off the connection and before it registers the call with the connection - is held there
// until release is closed.
type c20GateCtx struct {
	context.Context
	once    sync.Once
	reached chan struct{}
	release chan struct{}
}

func (g *c20GateCtx) Done() <-chan struct{} {
	g.once.Do(func() {
		close(g.reached)
		<-g.release
	})
	return nil
}

// c20TakenNotRegistered: a unary request is taken by a worker just before the connection ends and
// is registered with the connection only after Serve has swept its calls. It is an RPC all the
// same: its handler's context ends, the handler returns, and every stats handler that saw its
// Begin sees its End.
func c20TakenNotRegistered(tier string, seed int64, idx int, c c20Case, res *core.Result) {
	rec := &c20Rec{}
	var sopts []goat.ServerOption
	for j := 0; j < c.StatsSrv; j++ {
		sopts = append(sopts, goat.StatsHandler(&c20Stats{rec, "s", j}))
	}
	h := bed.NewHooks()
	h.Install()
	impl := svc.NewImpl()
	srv := goat.NewServer("srv", sopts...)
	srv.RegisterService(&svc.Desc, impl)
	giveUp := make(chan struct{})
	var returned, ctxEnded atomic.Bool
	impl.DefU = func(ctx context.Context, tag string, req []byte) ([]byte, error) {
		defer returned.Store(true)
		select {
		case <-ctx.Done():
			ctxEnded.Store(true)
			return nil, ctx.Err()
		case <-giveUp:
			return nil, fmt.Errorf("handler context never ended")
		}
	}
	l := wire.NewLink(0, idx%2 == 0)
	g := &c20GateCtx{Context: context.Background(), reached: make(chan struct{}), release: make(chan struct{})}
	pctx, pcancel := context.WithCancel(context.Background())
	defer pcancel()
	served := make(chan struct{})
	go func() { srv.Serve(g, l.B); close(served) }()
	wire.NewPeer(pctx, l.A, nil)
	body, _ := proto.Marshal(&svc.BV{Value: []byte("x")})
	go l.A.Write(pctx, &wire.Rpc{Id: 1, Header: &goatorepo.RequestHeader{Method: svc.MUnary, Source: "c0", Destination: "srv"}, Body: &goatorepo.Body{Data: body}})
	reached := false
	settle(tier, func() bool {
		select {
		case <-g.reached:
			reached = true
		default:
		}
		return reached
	})
	if !reached {
		res.Verdict, res.Note = core.Inconclusive, "no worker asked for the Serve context's Done channel"
		close(g.release)
		close(giveUp)
	} else {
		switch c.Outcome {
		case "stop":
			srv.Stop()
		case "write-failure":
			l.B.FailWrite()
			srv.Stop() // nothing is being written: Stop ends the connection whose write side is already broken
		default:
			l.B.FailRead()
		}
		st, snap := settle(tier, func() bool {
			select {
			case <-served:
				return true
			default:
				return false
			}
		})
		close(g.release) // the worker goes on: it registers the call now
		if st == "stuck" {
			res.ViolateD("serve-does-not-return", map[string]any{"goat_goroutines": goatParked(snap)}, "%s, %s: Serve did not return", c.Kind, c.Outcome)
		} else if st != "ok" {
			res.Verdict, res.Note = core.Inconclusive, "watchdog"
		} else {
			quiet(tier)
			if !returned.Load() {
				res.Violate("handler-context-never-ends/unary-taken-as-connection-ends", "a unary request taken by a worker just before the connection ended (%s) and registered after Serve's sweep: its handler's context never ends (final state)", c.Outcome)
			}
			rec.mu.Lock()
			for j := 0; j < c.StatsSrv; j++ {
				nb, ne := 0, 0
				for _, e := range rec.evs {
					if !e.Conn && e.Side == "s" && e.Handler == j {
						if e.Type == "*stats.Begin" {
							nb++
						}
						if e.Type == "*stats.End" {
							ne++
						}
					}
				}
				if nb != ne {
					res.Violate("stats-begin-end-count/s/unary-taken-as-connection-ends", "server stats handler %d saw %d Begin and %d End for the unary call taken as the connection ended (%s)", j, nb, ne, c.Outcome)
				}
			}
			rec.mu.Unlock()
			res.Stat("unary_taken_not_registered_cases", 1)
		}
		close(giveUp)
	}
	pcancel()
	l.Kill()
	srv.Stop()
	left, final := bed.Hygiene(watchdog(tier))
	bed.Uninstall()
	h.Fold(res)
	if !final || len(left) > 0 {
		res.Retire = true
	}
}

type c20Event struct {
	Side    string // "c" / "s"
	Handler int
	Token   uint64 // 0 = event context lacked the token
	Type    string
	Err     error
	Conn    bool
}

type c20Rec struct {
	mu     sync.Mutex
	evs    []c20Event
	icpt   []string // "enter:i" / "exit:i" / "handler", per RPC (one RPC per case)
	nextTk uint64
}

type c20Stats struct {
	rec  *c20Rec
	side string
	idx  int
}
type c20TokKey struct {
	side string
	idx  int
}

func (s *c20Stats) TagRPC(ctx context.Context, _ *stats.RPCTagInfo) context.Context {
	s.rec.mu.Lock()
	s.rec.nextTk++
	tk := s.rec.nextTk
	s.rec.evs = append(s.rec.evs, c20Event{Side: s.side, Handler: s.idx, Token: tk, Type: "TagRPC"})
	s.rec.mu.Unlock()
	return context.WithValue(ctx, c20TokKey{s.side, s.idx}, tk)
}
func (s *c20Stats) HandleRPC(ctx context.Context, e stats.RPCStats) {
	tk, _ := ctx.Value(c20TokKey{s.side, s.idx}).(uint64)
	ev := c20Event{Side: s.side, Handler: s.idx, Token: tk, Type: fmt.Sprintf("%T", e)}
	if end, ok := e.(*stats.End); ok {
		ev.Err = end.Error
	}
	s.rec.mu.Lock()
	s.rec.evs = append(s.rec.evs, ev)
	s.rec.mu.Unlock()
}
func (s *c20Stats) TagConn(ctx context.Context, _ *stats.ConnTagInfo) context.Context { return ctx }
func (s *c20Stats) HandleConn(ctx context.Context, e stats.ConnStats) {
	s.rec.mu.Lock()
	s.rec.evs = append(s.rec.evs, c20Event{Side: s.side, Handler: s.idx, Type: fmt.Sprintf("%T", e), Conn: true})
	s.rec.mu.Unlock()
}

type c20SS struct {
	grpc.ServerStream
	ctx context.Context
	i   int
}

func (w *c20SS) Context() context.Context { return w.ctx }
func (w *c20SS) RecvMsg(m any) error {
	err := w.ServerStream.RecvMsg(m)
	if err == nil {
		if bv, ok := m.(*svc.BV); ok {
			bv.Value = append(bv.Value, byte(w.i))
		}
	}
	return err
}
func (w *c20SS) SendMsg(m any) error {
	if bv, ok := m.(*svc.BV); ok {
		m = &svc.BV{Value: append(append([]byte{}, bv.Value...), byte(100+w.i))}
	}
	return w.ServerStream.SendMsg(m)
}

func c20Run(tier string, seed int64, idx int) *core.Result {
	c := c20List(tier)[idx]
	res := &core.Result{Verdict: core.Held, Sample: c, Sig: fmt.Sprintf("%+v", c), NonTrivial: true}
	if strings.HasPrefix(c.Kind, "expired-on-arrival/") {
		c20Expired(tier, seed, idx, c, res)
		return res
	}
	if strings.HasPrefix(c.Kind, "conn-end/") {
		c20ConnEnd(tier, seed, idx, c, res)
		return res
	}
	if strings.HasPrefix(c.Kind, "taken-not-registered/") {
		c20TakenNotRegistered(tier, seed, idx, c, res)
		return res
	}
	rec := &c20Rec{}
	note := func(s string) { rec.mu.Lock(); rec.icpt = append(rec.icpt, s); rec.mu.Unlock() }
	var uis []grpc.UnaryServerInterceptor
	var sis []grpc.StreamServerInterceptor
	for i := 1; i <= c.SrvChain; i++ {
		i := i
		uis = append(uis, func(ctx context.Context, req any, info *grpc.UnaryServerInfo, handler grpc.UnaryHandler) (any, error) {
			note(fmt.Sprintf("enter:%d", i))
			md, _ := metadata.FromIncomingContext(ctx)
			md = md.Copy()
			md.Append("icpt", fmt.Sprint(i))
			ctx = metadata.NewIncomingContext(ctx, md)
			in := req.(*svc.BV)
			resp, err := handler(ctx, &svc.BV{Value: append(append([]byte{}, in.Value...), byte(i))})
			note(fmt.Sprintf("exit:%d", i))
			if err != nil {
				if err == io.EOF {
					return resp, err // passed through unchanged: the library itself must treat it as a failure
				}
				st, _ := status.FromError(err)
				return resp, status.Error(st.Code(), st.Message()+fmt.Sprintf("<%d", i))
			}
			out := resp.(*svc.BV)
			return &svc.BV{Value: append(append([]byte{}, out.Value...), byte(100+i))}, nil
		})
		sis = append(sis, func(srv any, ss grpc.ServerStream, info *grpc.StreamServerInfo, handler grpc.StreamHandler) error {
			note(fmt.Sprintf("enter:%d", i))
			md, _ := metadata.FromIncomingContext(ss.Context())
			md = md.Copy()
			md.Append("icpt", fmt.Sprint(i))
			err := handler(srv, &c20SS{ServerStream: ss, ctx: metadata.NewIncomingContext(ss.Context(), md), i: i})
			note(fmt.Sprintf("exit:%d", i))
			if err != nil {
				if err == io.EOF {
					return err
				}
				st, _ := status.FromError(err)
				return status.Error(st.Code(), st.Message()+fmt.Sprintf("<%d", i))
			}
			return nil
		})
	}
	var sopts []goat.ServerOption
	if c.SrvSingle {
		sopts = append(sopts, goat.UnaryInterceptor(uis[0]), goat.StreamInterceptor(sis[0]))
	} else {
		sopts = append(sopts, goat.ChainUnaryInterceptor(uis...), goat.ChainStreamInterceptor(sis...))
	}
	for j := 0; j < c.StatsSrv; j++ {
		sopts = append(sopts, goat.StatsHandler(&c20Stats{rec, "s", j}))
	}
	var dopts []goat.DialOption
	for j := 0; j < c.StatsCli; j++ {
		dopts = append(dopts, goat.WithStatsHandler(&c20Stats{rec, "c", j}))
	}
	cliCalls := 0
	if c.CliIcpt {
		dopts = append(dopts,
			goat.WithUnaryInterceptor(func(ctx context.Context, method string, req, reply any, cc *grpc.ClientConn, invoker grpc.UnaryInvoker, opts ...grpc.CallOption) error {
				rec.mu.Lock()
				cliCalls++
				rec.mu.Unlock()
				ctx = metadata.AppendToOutgoingContext(ctx, "cli-icpt", "1")
				in := req.(*svc.BV)
				err := invoker(ctx, method, &svc.BV{Value: append(append([]byte{}, in.Value...), 'C')}, reply, cc, opts...)
				if err == nil {
					out := reply.(*svc.BV)
					out.Value = append(out.Value, 'R')
				}
				return err
			}),
			goat.WithStreamInterceptor(func(ctx context.Context, desc *grpc.StreamDesc, cc *grpc.ClientConn, method string, streamer grpc.Streamer, opts ...grpc.CallOption) (grpc.ClientStream, error) {
				rec.mu.Lock()
				cliCalls++
				rec.mu.Unlock()
				return streamer(metadata.AppendToOutgoingContext(ctx, "cli-icpt", "1"), desc, cc, method, opts...)
			}))
	}
	h := bed.NewHooks()
	h.Install()
	b := bed.New(bed.Opts{Serialise: idx%2 == 0, Cap: idx % 2, SrvOpts: sopts, DialOpts: dopts})
	cc := b.Conns[0]
	end := b.Links[0].A
	gates := NewGates()
	tag := fmt.Sprintf("c20-%d", idx)
	herr := error(nil)
	if c.Outcome == "handler-error" {
		herr = status.Error(codes.AlreadyExists, "exists")
	}
	if c.Outcome == "handler-error-eof" {
		herr = io.EOF // e.g. `return err` on stream.Recv() after the half-close
	}
	// the handler returns at once; its trailer is held in the server's writer while the caller, who
	// cannot know yet, sends three messages with an empty encoding; they reach the server after the
	// stream was closed there. One RPC took place.
	lateEmpty := c.Outcome == "early-return-late-empty-messages" && (c.Kind == "client" || c.Kind == "bidi")
	trailerParked := make(chan struct{}, 1)
	releaseTrailer := make(chan struct{})
	lateSent := make(chan struct{})
	if lateEmpty {
		var once sync.Once
		h.On("srv.writer.beforeWrite", func(uint64) {
			fired := false
			once.Do(func() { fired = true })
			if fired {
				trailerParked <- struct{}{}
				<-releaseTrailer
			}
		})
	}
	uncollected := c.Outcome == "cancel-with-response-uncollected"
	parkHandler := c.Outcome == "cancel" || c.Outcome == "deadline" || c.Outcome == "transport-failure" || uncollected
	var hmu sync.Mutex
	var hMD metadata.MD
	var hReq []byte
	handlerRan := 0
	b.Impl.SetUnary(tag, func(ctx context.Context, t string, req []byte) ([]byte, error) {
		note("handler")
		md, _ := metadata.FromIncomingContext(ctx)
		hmu.Lock()
		hMD, hReq = md.Copy(), append([]byte{}, req...)
		handlerRan++
		hmu.Unlock()
		if parkHandler {
			gates.Wait("release")
		}
		return []byte("rep"), herr
	})
	b.Impl.SetStream(tag, func(t, k string, ss grpc.ServerStream) error {
		note("handler")
		md, _ := metadata.FromIncomingContext(ss.Context())
		hmu.Lock()
		hMD = md.Copy()
		handlerRan++
		hmu.Unlock()
		if lateEmpty {
			return nil
		}
		if k != "client" || true {
			var m svc.BV
			if err := ss.RecvMsg(&m); err == nil {
				hmu.Lock()
				hReq = append([]byte{}, m.Value...)
				hmu.Unlock()
			}
		}
		if uncollected {
			ss.SendMsg(&svc.BV{Value: []byte("never collected")})
		}
		if parkHandler {
			<-ss.Context().Done()
			return ss.Context().Err()
		}
		if herr != nil {
			return herr
		}
		if err := ss.SendMsg(&svc.BV{Value: []byte("rep")}); err != nil {
			return err
		}
		if k != "server" {
			for {
				var m svc.BV
				if err := ss.RecvMsg(&m); err != nil {
					break
				}
			}
		}
		return nil
	})

	// the caller's own context already carries a value under the key the client interceptor appends to
	m := svc.NewManualCtx(metadata.AppendToOutgoingContext(context.Background(), "cli-icpt", "0"))
	switch c.Outcome {
	case "open-lost-server-resets":
		// the stream's opening envelope is lost on the way (the transport reports nothing): the
		// server answers the first body it sees for the unknown stream with a reset
		end.DiscardWritesAt(end.Writes())
	case "failed-open":
		end.FailWriteAt(end.Writes(), true)
	case "call-on-failed-connection":
		end.FailRead()
		end.Discard()
		settle(tier, func() bool { return readErrSet(cc) })
	}
	var callErr error
	var reply []byte
	done := make(chan struct{})
	go func() {
		defer close(done)
		if c.Kind == "unary" {
			reply, callErr = svc.Invoke(m, cc, tag, []byte("q"))
			return
		}
		s, err := svc.Open(m, cc, c.Kind, tag, []byte("q"))
		if err != nil {
			callErr = err
			return
		}
		if lateEmpty {
			gates.Wait("go-late")
			for k := 0; k < 3; k++ {
				s.Send([]byte{})
			}
			close(lateSent)
		} else if c.Kind != "server" {
			if err := s.Send([]byte("q")); err != nil && err != io.EOF {
				callErr = err
				return
			}
			if !parkHandler {
				s.CloseSend()
			}
		}
		if uncollected {
			// the response is sitting in the stream's read loop; the caller never collects it
			s.Header()
			<-m.Done()
		}
		for {
			msg, err := s.Recv()
			if err != nil {
				callErr = err
				break
			}
			reply = msg
		}
		if callErr == io.EOF {
			callErr = nil
		}
	}()
	if lateEmpty {
		if stp, _ := settle(tier, func() bool { return len(trailerParked) > 0 }); stp == "ok" {
			gates.Open("go-late")
			settle(tier, func() bool {
				select {
				case <-lateSent:
					return true
				default:
					return false
				}
			})
			quiet(tier)
			res.Stat("late_empty_messages_after_server_end", 1)
		}
		close(releaseTrailer)
	}
	if parkHandler {
		// wait until the handler runs, then inject the outcome
		settle(tier, func() bool { hmu.Lock(); defer hmu.Unlock(); return handlerRan > 0 })
		quiet(tier)
		switch c.Outcome {
		case "cancel", "cancel-with-response-uncollected":
			m.Cancel()
		case "deadline":
			m.Fire()
		case "transport-failure":
			end.FailRead()
			end.FailWrite()
		}
	}
	st, snap := settle(tier, func() bool {
		select {
		case <-done:
			return true
		default:
			return false
		}
	})
	gates.OpenAll()
	if st == "stuck" {
		res.ViolateD("call-never-returns", map[string]any{"goat_goroutines": goatParked(snap)}, "%s RPC with outcome %s never returned", c.Kind, c.Outcome)
	} else if st == "timeout" {
		res.Verdict, res.Note = core.Inconclusive, "watchdog"
	}
	quiet(tier)
	m.Cancel()
	// end the connection so that ConnEnd is emitted, then let everything settle
	b.Close()
	left, final := bed.Hygiene(watchdog(tier))
	bed.Uninstall()
	h.Fold(res)
	if !final || len(left) > 0 {
		res.Retire = true
	}
	if st != "ok" {
		return res
	}
	where := fmt.Sprintf("%s RPC, outcome %s, server chain %d", c.Kind, c.Outcome, c.SrvChain)
	reached := handlerRan > 0
	// ---- interceptors
	rec.mu.Lock()
	trace := append([]string{}, rec.icpt...)
	evs := append([]c20Event{}, rec.evs...)
	cliN := cliCalls
	rec.mu.Unlock()
	if c.CliIcpt && cliN != 1 {
		res.Violate("client-interceptor-invocations", "%s: client interceptor invoked %d times", where, cliN)
	}
	if reached {
		n := c.SrvChain
		if c.SrvSingle {
			n = 1
		}
		var want []string
		for i := 1; i <= n; i++ {
			want = append(want, fmt.Sprintf("enter:%d", i))
		}
		want = append(want, "handler")
		for i := n; i >= 1; i-- {
			want = append(want, fmt.Sprintf("exit:%d", i))
		}
		if fmt.Sprint(trace) != fmt.Sprint(want) {
			res.Violate("server-interceptor-order", "%s: interceptor trace %v, want %v", where, trace, want)
		}
		hmu.Lock()
		var wantIcpt []string
		wantReq := []byte("q")
		if c.CliIcpt && c.Kind == "unary" {
			wantReq = append(wantReq, 'C')
		}
		for i := 1; i <= n; i++ {
			wantIcpt = append(wantIcpt, fmt.Sprint(i))
			wantReq = append(wantReq, byte(i))
		}
		if fmt.Sprint(hMD.Get("icpt")) != fmt.Sprint(wantIcpt) {
			res.Violate("interceptor-context-edit-lost", "%s: handler saw icpt metadata %v, want %v", where, hMD.Get("icpt"), wantIcpt)
		}
		wantCli := "[0]"
		if c.CliIcpt {
			wantCli = "[0 1]" // appended to the caller's value, in that order
		}
		if fmt.Sprint(hMD.Get("cli-icpt")) != wantCli {
			res.Violate("client-interceptor-edit-lost", "%s: handler saw cli-icpt metadata %v, want %s", where, hMD.Get("cli-icpt"), wantCli)
		}
		if hReq != nil && string(hReq) != string(wantReq) {
			res.Violate("interceptor-request-edit-lost", "%s: handler saw request %q, want %q", where, hReq, wantReq)
		}
		hmu.Unlock()
		if c.Outcome == "ok" {
			wantRep := []byte("rep")
			for i := n; i >= 1; i-- {
				wantRep = append(wantRep, byte(100+i))
			}
			if c.CliIcpt && c.Kind == "unary" {
				wantRep = append(wantRep, 'R')
			}
			if c.Kind == "unary" || c.Kind == "server" || c.Kind == "bidi" || c.Kind == "client" {
				if callErr != nil || string(reply) != string(wantRep) {
					res.Violate("interceptor-reply-edit-lost", "%s: caller got %q err=%v, want %q", where, reply, callErr, wantRep)
				}
			}
		}
		if c.Outcome == "handler-error" {
			s, _ := status.FromError(callErr)
			wantMsg := "exists"
			for i := n; i >= 1; i-- {
				wantMsg += fmt.Sprintf("<%d", i)
			}
			if s.Code() != codes.AlreadyExists || s.Message() != wantMsg {
				res.Violate("interceptor-error-edit-lost", "%s: caller got %v, want AlreadyExists %q", where, callErr, wantMsg)
			}
		}
	}
	// ---- stats handlers
	for _, side := range []string{"c", "s"} {
		nh := c.StatsCli
		if side == "s" {
			nh = c.StatsSrv
		}
		for j := 0; j < nh; j++ {
			var rpcEvs []c20Event
			connBegin, connEnd := 0, 0
			for _, e := range evs {
				if e.Side != side || e.Handler != j {
					continue
				}
				if e.Conn {
					if e.Type == "*stats.ConnBegin" {
						connBegin++
					}
					if e.Type == "*stats.ConnEnd" {
						connEnd++
					}
					continue
				}
				if e.Type != "TagRPC" {
					rpcEvs = append(rpcEvs, e)
				}
			}
			if side == "s" && (connBegin != 1 || connEnd != 1) {
				res.Violate("conn-stats-count", "%s: server stats handler %d saw %d ConnBegin and %d ConnEnd for one served connection", where, j, connBegin, connEnd)
			}
			if side == "s" && !reached {
				if len(rpcEvs) != 0 {
					res.Violate("stats-events-without-rpc", "%s: server stats handler %d saw %d events although the request never reached the server", where, j, len(rpcEvs))
				}
				continue
			}
			begins, ends := 0, 0
			var endErr error
			for k, e := range rpcEvs {
				if e.Token == 0 {
					res.Violate("stats-event-without-rpc-tag/"+side, "%s: %s-side stats handler %d received %s with a context that lacks the value its TagRPC set", where, side, j, e.Type)
					break
				}
				if e.Type == "*stats.Begin" {
					begins++
					if k != 0 {
						res.Violate("stats-begin-not-first/"+side, "%s: %s-side handler %d: Begin is event number %d", where, side, j, k+1)
					}
				}
				if e.Type == "*stats.End" {
					ends++
					endErr = e.Err
				}
			}
			if begins != 1 || ends != 1 {
				res.Violate(fmt.Sprintf("stats-begin-end-count/%s/%s", side, c.Outcome), "%s: %s-side stats handler %d saw %d Begin and %d End (want exactly one each)", where, side, j, begins, ends)
				continue
			}
			success := callErr == nil
			if c.Outcome == "open-lost-server-resets" {
				success = false // the server reset the stream: that RPC failed, whatever the caller was told
			}
			if side == "s" {
				// on the server side the RPC succeeded iff the handler returned nil: a unary handler
				// is not interrupted by the caller going away (it returns its reply, which is dropped)
				success = c.Outcome == "ok" || c.Outcome == "early-return-late-empty-messages" || (c.Kind == "unary" && c.Outcome != "handler-error" && c.Outcome != "handler-error-eof")
			}
			if (endErr == nil) != success {
				res.Violate(fmt.Sprintf("stats-end-error-mismatch/%s/%s", side, c.Outcome), "%s: %s-side End.Error=%v but the RPC %s on that side", where, side, endErr, map[bool]string{true: "succeeded", false: "failed"}[success])
			}
			res.Stat("stats_handler_rpc_views_checked", 1)
		}
	}
	if c.Outcome == "open-lost-server-resets" {
		if callErr == nil {
			res.Violate("stream-reset-by-server-reported-as-success", "%s: the server reset the stream (its open was lost) and the caller's receive loop ended with io.EOF / nil", where)
		}
		res.Stat("streams_reset_by_the_server", 1)
	}
	res.Stat("rpcs", 1)
	res.SetAdd("outcomes", c.Outcome)
	return res
}

func init() {
	core.Register(&core.Prop{
		ID:             "C20",
		Level:          "exploration",
		Rule:           "one RPC per case over the cross product server interceptor chain length 1..6 (ChainUnary/ChainStreamInterceptor, and the single-interceptor options for length 1) x client interceptor {none, one} x 1..3 stats handlers per side x 4 RPC kinds x 10 outcomes {ok, the stream's opening envelope lost so that the server resets the stream (End must carry an error), handler error, handler failing with io.EOF, cancel, cancel while a response sits uncollected in the read loop, manual deadline, transport failure, open failing in the transport write, call on a connection whose read already failed} (quick: a fixed third of the middle chain lengths). Every interceptor records enter/exit and edits context metadata, request, reply and error; every stats handler tags the context with a fresh token. Plus connection-level cases: one ConnBegin/ConnEnd per served connection when it ends by Stop / write failure / read failure while idle, while all 8 unary workers are busy with more requests pending, and while a stream whose handler does not read has a full queue. Plus a unary request that a worker takes off the connection just before the connection ends (read failure / Stop / write failure) and that registers with the connection only after Serve's sweep of its calls (the worker is held inside the Serve context's Done method): its handler's context must end and every Begin has its End. All cases are distinct tuples and non-trivial.",
		Plan:           func(tier string, seed int64) int { return len(c20List(tier)) },
		ThoroughRounds: 8,
		Run:            c20Run,
		RequiredStats: func(string) []string {
			return []string{"rpcs", "stats_handler_rpc_views_checked", "conn_end_scenarios", "expired_on_arrival_cases"}
		},
		Assumptions: []string{"goat offers one client interceptor slot; client-side chains longer than one are user code and not exercised"},
	})
}

package props

import (
	"context"
	"encoding/base64"
	"fmt"
	"strings"
	"sync"
	"sync/atomic"
	"time"

	"github.com/avos-io/goat/gen/goatorepo"
	"google.golang.org/grpc"
	"google.golang.org/grpc/metadata"
	"google.golang.org/protobuf/proto"

	"goatverif/bed"
	"goatverif/core"
	"goatverif/svc"
	"goatverif/wire"
)

// C06: every emitted envelope sequence conforms to the documented wire protocol.

type protoViolation struct {
	Key, Msg string
}

func kvHasTag(r *wire.Rpc) string {
	for _, kv := range r.GetHeader().GetHeaders() {
		if kv.Key == svc.TagKey {
			return kv.Value
		}
	}
	return ""
}

func nonTagHeaders(r *wire.Rpc) int {
	n := 0
	for _, kv := range r.GetHeader().GetHeaders() {
		if kv.Key != svc.TagKey {
			n++
		}
	}
	return n
}

// checkWire runs the protocol automata over one link's delivered envelopes.
// returned: tag -> logical time the stream handler returned; closeSeq: when the bed was closed.
func checkWire(log []*wire.Rec, returned, unaryReturned map[string]uint64, closeSeq uint64) (viol []protoViolation, stats map[string]int64) {
	stats = map[string]int64{}
	type dirState struct {
		n                       int
		method, src, dst        string
		trailer, reset, hdrOnly bool
		resets                  int
		bodies                  int
	}
	type idState struct {
		unary       bool
		tag         string
		c2s         dirState
		s2c         dirState
		c2sBody     bool // a C->S body was seen (for server resets)
		interesting bool
	}
	ids := map[uint64]*idState{}
	add := func(key, format string, a ...any) {
		viol = append(viol, protoViolation{key, fmt.Sprintf(format, a...)})
	}
	for _, e := range log {
		r := e.Rpc
		id := r.GetId()
		st := ids[id]
		dirName := map[int]string{0: "C->S", 1: "S->C"}[e.Dir]
		if r.GetHeader() == nil {
			add("envelope-without-header/"+dirName, "id %d %s: envelope without header (%s)", id, dirName, wire.Kind(r))
			continue
		}
		if e.Dir == 0 {
			if st == nil {
				st = &idState{unary: r.GetHeader().GetMethod() == svc.MUnary || r.GetHeader().GetMethod() == svc.MUnary2, tag: kvHasTag(r)}
				// an open whose request metadata cannot be decoded is refused: the server answers
				// it with a reset although no body was sent
				for _, kv := range r.GetHeader().GetHeaders() {
					if strings.HasSuffix(strings.ToLower(kv.GetKey()), "-bin") {
						if _, err := base64.URLEncoding.DecodeString(kv.GetValue()); err != nil {
							st.c2sBody = true
						}
					}
				}
				ids[id] = st
			}
		} else if st == nil {
			add("server-emits-for-unknown-id", "S->C envelope (%s) for id %d which the server has not received", wire.Kind(r), id)
			continue
		}
		d := &st.c2s
		if e.Dir == 1 {
			d = &st.s2c
		}
		// constant header fields per id and direction
		h := r.GetHeader()
		if d.n == 0 {
			d.method, d.src, d.dst = h.GetMethod(), h.GetSource(), h.GetDestination()
			if e.Dir == 1 && st.c2s.n > 0 && (d.src != st.c2s.dst || d.dst != st.c2s.src) {
				add("response-source-destination-not-swapped", "id %d: request %s->%s, response %s->%s", id, st.c2s.src, st.c2s.dst, d.src, d.dst)
			}
			if e.Dir == 1 && st.c2s.n > 0 && d.method != st.c2s.method {
				add("response-method-differs", "id %d: request method %q, response method %q", id, st.c2s.method, d.method)
			}
		} else if h.GetMethod() != d.method || h.GetSource() != d.src || h.GetDestination() != d.dst {
			add("header-fields-not-constant/"+dirName, "id %d %s: method/source/destination changed within the stream (%q %q->%q vs %q %q->%q)", id, dirName, h.GetMethod(), h.GetSource(), h.GetDestination(), d.method, d.src, d.dst)
		}
		isReset := r.GetReset_() != nil
		hasBody, hasTrailer := r.GetBody() != nil, r.GetTrailer() != nil
		switch {
		case st.unary && e.Dir == 0:
			if d.n > 0 {
				add("unary-request-not-single", "id %d: more than one C->S envelope for a unary call (%s)", id, wire.Kind(r))
			} else if !hasBody || hasTrailer || isReset {
				add("unary-request-malformed", "id %d: unary request is %s, want header+body", id, wire.Kind(r))
			}
		case st.unary && e.Dir == 1:
			if d.n > 0 {
				add("unary-response-not-single", "id %d: more than one S->C envelope for a unary call (%s)", id, wire.Kind(r))
			} else {
				nonOK := r.GetStatus() != nil && r.GetStatus().GetCode() != 0
				if !hasTrailer || isReset || !(hasBody || nonOK) {
					add("unary-response-malformed", "id %d: unary response is %s (status %v), want header+trailer+(body or non-OK status)", id, wire.Kind(r), r.GetStatus())
				}
			}
		case e.Dir == 0: // client side of a stream
			switch {
			case d.reset:
				add("client-envelope-after-reset", "id %d: C->S %s after the client's reset", id, wire.Kind(r))
			case isReset:
				if d.n == 0 {
					add("client-reset-before-stream-open", "id %d: the client's first envelope for the id is a reset (the stream was never opened)", id)
				}
				d.reset = true
				d.resets++
				st.interesting = true
			case d.n == 0:
				if hasBody || hasTrailer {
					add("stream-open-not-header-only", "id %d: first C->S envelope of a stream is %s", id, wire.Kind(r))
				}
			case d.trailer:
				add("client-envelope-after-trailer", "id %d: C->S %s after the client's trailer", id, wire.Kind(r))
			case hasTrailer:
				d.trailer = true
				if r.GetStatus() == nil {
					add("client-trailer-without-status", "id %d: client trailer without status", id)
				}
			case hasBody:
				d.bodies++
				st.c2sBody = true
			default:
				add("stream-second-header-only/C->S", "id %d: header-only C->S envelope in mid-stream", id)
			}
		default: // server side of a stream
			if d.n > 0 && nonTagHeaders(r) > 0 {
				add("response-metadata-not-on-first-envelope", "id %d: S->C envelope number %d (%s) carries response metadata", id, d.n+1, wire.Kind(r))
			}
			switch {
			case isReset:
				d.resets++
				st.interesting = true
				if !st.c2sBody {
					add("server-reset-without-body", "id %d: server reset although no C->S body had been received for the stream", id)
				}
				d.reset = true
			case d.trailer:
				add("server-envelope-after-trailer", "id %d: S->C %s after the server's trailer", id, wire.Kind(r))
			case hasTrailer:
				if d.reset {
					add("server-reset-overtakes-trailer", "id %d: the server's reset was emitted before the stream's trailer", id)
				}
				d.trailer = true
				if r.GetStatus() == nil {
					add("server-trailer-without-status", "id %d: trailer without status", id)
				}
				if r.GetStatus().GetCode() != 0 {
					st.interesting = true
				}
			case hasBody:
				if d.reset {
					add("server-body-after-reset", "id %d: S->C body after a server reset", id)
				}
				d.bodies++
			default:
				if d.n > 0 {
					add("stream-second-header-only/S->C", "id %d: header-only S->C envelope in mid-stream (position %d)", id, d.n+1)
				}
				d.hdrOnly = true
			}
		}
		d.n++
		stats["envelopes"]++
	}
	// end-of-history rule
	for id, st := range ids {
		stats["projections"] += 2
		if st.interesting {
			stats["projections_with_reset_or_error"]++
		}
		if st.unary {
			// a unary request that was handled while the connection was alive has its one response
			if ret, ok := unaryReturned[st.tag]; ok && st.tag != "" && (closeSeq == 0 || ret < closeSeq) && st.c2s.n == 1 && st.s2c.n == 0 {
				add("unary-request-without-response", "id %d (%s): the unary handler returned, the connection was alive, but no response envelope was emitted", id, st.tag)
			}
			continue
		}
		ret, ok := returned[st.tag]
		if !ok || st.tag == "" {
			continue
		}
		if closeSeq != 0 && ret > closeSeq {
			continue // the handler returned while the connection was being torn down
		}
		if st.c2s.resets == 0 && !st.s2c.trailer {
			add("handler-returned-without-trailer", "id %d (%s): the handler returned, the caller never reset the stream, the connection was alive, but no trailer was emitted", id, st.tag)
		}
		stats["handler_returns_checked"]++
	}
	return
}

type c06Case struct {
	Source string `json:"workload"` // which property's generator
	Index  int    `json:"index"`
}

func c06List(tier string, seed int64) []c06Case {
	var out []c06Case
	add := func(src string, total, want int) {
		if want > total {
			want = total
		}
		for i := 0; i < want; i++ {
			out = append(out, c06Case{src, i * total / want})
		}
	}
	if tier == "thorough" {
		add("C01", 3000, 600)
		add("C02", 24000, 6000)
		add("C03", 4800, 1200)
		add("C07", len(c07List("thorough")), 1360)
		add("C11", len(c11List("thorough")), 2400)
	} else {
		add("C01", 96, 48)
		add("C02", 600, 300)
		add("C03", 144, 72)
		add("C07", len(c07List("quick")), 238)
		add("C11", len(c11List("quick")), 192)
	}
	add("directed-send-across-cancel", 1000, tierN(tier, 24, 240))
	add("directed-unary-deadline-in-handler", 1000, tierN(tier, 12, 120))
	add("directed-cancel-during-open-write", 1000, tierN(tier, 12, 120))
	add("directed-reset-after-handler-returned", 1000, tierN(tier, 12, 120))
	add("directed-open-on-ended-context", 1000, tierN(tier, 16, 160))
	add("directed-refused-open", 1000, tierN(tier, 8, 80))
	add("directed-bodies-after-server-deadline", 1000, tierN(tier, 4, 40))
	add("directed-closesend-after-reset", 1000, tierN(tier, 6, 36))
	add("directed-setheader-after-first-message", 1000, tierN(tier, 6, 36))
	return out
}

// c06Directed: a SendMsg is parked between its done-check and its write while the caller's
// context is cancelled and the stream's reset goes out; then it continues. On a transport that
// accepts a write without looking at the context, the body must still not follow the reset.
func c06Directed(tier string, seed int64, idx int) *core.Result {
	res := &core.Result{Verdict: core.Held}
	h := bed.NewHooks()
	armed := make(chan struct{}, 1)
	parked := make(chan struct{})
	release := make(chan struct{})
	h.On("cs.send.window", func(uint64) {
		if idx%2 == 1 {
			return
		}
		select {
		case <-armed:
			close(parked)
			<-release
		default:
		}
	})
	h.Install()
	b := bed.New(bed.Opts{Cap: 4})
	b.Links[0].Eager = true
	atEntry := idx%2 == 1
	if atEntry {
		// variant: the send is held inside the transport's Write (at its entry, before the transport
		// orders concurrent writes) instead of before it: concurrent Write calls have no defined
		// order, so the library must not have a body and the reset in flight at the same time
		b.Links[0].A.SetOnWriteEntry(func(r *wire.Rpc) {
			if r.GetBody() == nil {
				return
			}
			select {
			case <-armed:
				close(parked)
				<-release
			default:
			}
		})
	}
	gates := NewGates()
	tag := fmt.Sprintf("dir%d", idx)
	hrec := &SideRec{}
	b.Impl.SetStream(tag, func(t, k string, ss grpc.ServerStream) error {
		return runHandlerProg(ss, t, []Op{{Op: "echo"}}, hrec, gates)
	})
	m := svc.NewManualCtx(context.Background())
	kind := []string{"bidi", "client"}[idx%2]
	cops := []Op{{Op: "send", N: 1 + idx%3, Size: 17}, {Op: "armSend"}, {Op: "send", N: 1, Size: 17}}
	cr := StartClient(m, m.Cancel, m.Fire, b.Conns[0], kind, tag, nil, cops, nil, gates, nil, func(context.Context) { armed <- struct{}{} })
	st, _ := settle(tier, func() bool {
		select {
		case <-parked:
			return true
		default:
			return false
		}
	})
	if st == "ok" {
		res.Stat("send_parked_across_cancel", 1)
		if idx%4 < 2 {
			m.Cancel()
		} else {
			m.Fire()
		}
		quiet(tier) // the stream's read loop leaves and writes its reset
	}
	close(release)
	settle(tier, cr.IsDone)
	quiet(tier)
	b.Close()
	bed.Hygiene(watchdog(tier))
	bed.Uninstall()
	h.Fold(res)
	return res
}

// c06UnaryDeadline: a unary request whose (1 ms) deadline expires while its handler runs must still
// be answered with exactly one response envelope.
func c06UnaryDeadline(tier string, seed int64, idx int) *core.Result {
	res := &core.Result{Verdict: core.Held}
	h := bed.NewHooks()
	h.Install()
	b := bed.New(bed.Opts{Cap: 2})
	tag := fmt.Sprintf("udl%d", idx)
	b.Impl.SetUnary(tag, func(ctx context.Context, t string, req []byte) ([]byte, error) {
		<-ctx.Done() // the deadline conveyed by the request expires here
		if idx%2 == 0 {
			return nil, ctx.Err()
		}
		return req, nil
	})
	body, _ := proto.Marshal(&svc.BV{Value: []byte("x")})
	id := uint64(1)<<40 + uint64(idx)
	e := &wire.Rpc{Id: id, Header: &goatorepo.RequestHeader{Method: svc.MUnary, Source: "c0", Destination: "srv",
		Headers: []*goatorepo.KeyValue{{Key: svc.TagKey, Value: tag}, {Key: "grpc-timeout", Value: []string{"1m", "500u", "2m"}[idx%3]}}}, Body: &goatorepo.Body{Data: body}}
	if err := b.Links[0].A.Write(context.Background(), e); err != nil {
		res.Verdict, res.Note = core.Inconclusive, "raw write failed"
	}
	// a real (1 ms) timer is pending here, so "every goroutine blocked" does not mean final: wait in
	// real time for the handler to return, then for its reply to settle
	for i := 0; i < 5000 && len(b.Impl.UnaryReturnedAt()) == 0; i++ {
		time.Sleep(time.Millisecond)
	}
	if len(b.Impl.UnaryReturnedAt()) == 0 {
		res.Verdict, res.Note = core.Inconclusive, "handler deadline did not fire within 5 s"
	}
	settle(tier, func() bool {
		for _, e := range b.Links[0].Tap.Log() {
			if e.Dir == 1 && e.Rpc.GetId() == id {
				return true
			}
		}
		return false
	})
	res.Stat("unary_deadline_in_handler", 1)
	finish(tier, b, h, res)
	return res
}

// c06CancelDuringOpen: the caller's context ends while the stream's opening envelope is still
// inside the transport's Write; whatever happens then, a reset must never be the first (or only)
// thing the client emits for the id.
func c06CancelDuringOpen(tier string, seed int64, idx int) *core.Result {
	res := &core.Result{Verdict: core.Held}
	h := bed.NewHooks()
	h.Install()
	b := bed.New(bed.Opts{Cap: 2})
	b.Links[0].Eager = idx%2 == 0
	parked := make(chan struct{})
	release := make(chan struct{})
	var once sync.Once
	b.Links[0].A.SetOnWriteEntry(func(r *wire.Rpc) {
		if r.GetBody() == nil && r.GetTrailer() == nil && r.GetReset_() == nil {
			fired := false
			once.Do(func() { fired = true; close(parked) })
			if fired {
				<-release
			}
		}
	})
	m := svc.NewManualCtx(context.Background())
	done := make(chan struct{})
	go func() {
		defer close(done)
		kind := []string{"bidi", "client", "server"}[idx%3]
		s, err := svc.Open(m, b.Conns[0], kind, fmt.Sprintf("cdo%d", idx), []byte("q"))
		if err == nil && s != nil {
			s.Recv()
		}
	}()
	if st, _ := settle(tier, func() bool {
		select {
		case <-parked:
			return true
		default:
			return false
		}
	}); st == "ok" {
		if idx%4 < 2 {
			m.Cancel()
		} else {
			m.Fire()
		}
		quiet(tier)
		res.Stat("cancel_during_open_write", 1)
	}
	close(release)
	settle(tier, func() bool {
		select {
		case <-done:
			return true
		default:
			return false
		}
	})
	finish(tier, b, h, res)
	return res
}

// c06OpenOnEndedContext: a streaming (or unary) call is started on a context that is already
// cancelled or past its deadline. Whether or not the transport still takes the opening envelope,
// the client's history for that id must be a legal one - in particular nothing at all, or an open
// followed by a reset, never a reset for an id that was not opened.
func c06OpenOnEndedContext(tier string, seed int64, idx int) *core.Result {
	res := &core.Result{Verdict: core.Held}
	h := bed.NewHooks()
	h.Install()
	b := bed.New(bed.Opts{Cap: []int{0, 0, 2}[idx%3], Serialise: idx%2 == 0})
	b.Links[0].Eager = idx%4 == 3
	m := svc.NewManualCtx(context.Background())
	if idx%2 == 0 {
		m.Cancel()
	} else {
		m.Fire()
	}
	done := make(chan struct{})
	go func() {
		defer close(done)
		if idx%5 == 4 {
			svc.Invoke(m, b.Conns[0], fmt.Sprintf("oec%d", idx), []byte("q"))
			return
		}
		kind := []string{"bidi", "client", "server"}[idx%3]
		s, err := svc.Open(m, b.Conns[0], kind, fmt.Sprintf("oec%d", idx), []byte("q"))
		if err == nil && s != nil {
			s.Recv()
		}
	}()
	settle(tier, func() bool {
		select {
		case <-done:
			return true
		default:
			return false
		}
	})
	quiet(tier)
	res.Stat("open_on_ended_context", 1)
	// a healthy call afterwards keeps the history honest (the connection is alive)
	svc.Invoke(context.Background(), b.Conns[0], fmt.Sprintf("oec-after%d", idx), []byte("x"))
	finish(tier, b, h, res)
	return res
}

// c06BodiesAfterDeadline: a raw stream open carrying a short grpc-timeout; its handler is busy
// past that deadline (it does not watch its context) while the peer, who cannot know, sends three
// more bodies. The stream is still open on the server: nothing is emitted for it until the handler
// returns, and then a trailer - no reset for a stream the server still knows.
func c06BodiesAfterDeadline(tier string, seed int64, idx int) *core.Result {
	res := &core.Result{Verdict: core.Held}
	h := bed.NewHooks()
	h.Install()
	b := bed.New(bed.Opts{Cap: 4, Serialise: idx%2 == 0})
	gate := make(chan struct{})
	entered := make(chan struct{}, 1)
	b.Impl.DefS = func(t, k string, ss grpc.ServerStream) error {
		entered <- struct{}{}
		<-gate
		return nil
	}
	svc.Invoke(context.Background(), b.Conns[0], fmt.Sprintf("bad-before%d", idx), []byte("x"))
	const id = 1 << 31
	hd := func() *goatorepo.RequestHeader {
		return &goatorepo.RequestHeader{Method: []string{svc.MBidi, svc.MClient}[idx%2], Source: "c0", Destination: "srv"}
	}
	open := &wire.Rpc{Id: id, Header: hd()}
	open.Header.Headers = []*goatorepo.KeyValue{{Key: "grpc-timeout", Value: "20m"}}
	write := func(e *wire.Rpc) {
		done := make(chan error, 1)
		go func() { done <- b.Links[0].A.Write(context.Background(), e) }()
		settle(tier, func() bool { return len(done) > 0 })
	}
	write(open)
	select {
	case <-entered:
	case <-time.After(5 * time.Second):
		res.Verdict, res.Note = core.Inconclusive, "handler did not start"
		close(gate)
		finish(tier, b, h, res)
		return res
	}
	time.Sleep(120 * time.Millisecond) // the 20 ms deadline has passed on the server
	body, _ := proto.Marshal(&svc.BV{Value: []byte("late")})
	for k := 0; k < 3; k++ {
		write(&wire.Rpc{Id: id, Header: hd(), Body: &goatorepo.Body{Data: body}})
	}
	quiet(tier)
	close(gate)
	quiet(tier)
	res.Stat("bodies_after_server_deadline", 1)
	nReset, nTrailer := 0, 0
	for _, e := range b.Links[0].Tap.Log() {
		if e.Dir == 1 && e.Rpc.GetId() == id {
			if e.Rpc.GetReset_() != nil {
				nReset++
			}
			if e.Rpc.GetTrailer() != nil && e.Rpc.GetReset_() == nil {
				nTrailer++
			}
		}
	}
	if nTrailer != 1 {
		// the peer never reset the stream and the connection is alive: the handler's return must
		// produce the stream's one trailer although the stream's own deadline has passed
		res.Violate("handler-returned-without-trailer/after-server-deadline", "the handler of stream %d returned after its 20 ms deadline had passed; its peer had not reset the stream and the connection was alive, but the server emitted %d trailers (and %d resets) for it", id, nTrailer, nReset)
	}
	if nReset > 0 {
		res.Violate("server-resets-a-stream-it-still-knows", "the handler of stream %d was still running (past its 20 ms deadline) when three more bodies arrived: the server emitted %d reset(s) for the stream and then %d trailer(s)", id, nReset, nTrailer)
	}
	svc.Invoke(context.Background(), b.Conns[0], fmt.Sprintf("bad-after%d", idx), []byte("x"))
	finish(tier, b, h, res)
	return res
}

// c06CloseSendAfterReset: the caller gives the stream up (cancel, manual deadline, or a send that
// cannot be encoded), the client's reset goes out, and the application then half-closes the stream
// all the same (a deferred tidy-up), over a transport that completes a write on an ended context
// when it does not have to wait. The reset is the client's final envelope: the wire automaton
// flags anything that follows it.
func c06CloseSendAfterReset(tier string, seed int64, idx int) *core.Result {
	res := &core.Result{Verdict: core.Held}
	h := bed.NewHooks()
	h.Install()
	b := bed.New(bed.Opts{Cap: 8, Serialise: idx%2 == 0})
	b.Links[0].Eager = true
	kind := []string{"bidi", "client"}[idx%2]
	tag := fmt.Sprintf("csar%d", idx)
	b.Impl.SetStream(tag, func(t, k string, ss grpc.ServerStream) error {
		for ss.RecvMsg(new(svc.BV)) == nil {
		}
		return ss.Context().Err()
	})
	m := svc.NewManualCtx(context.Background())
	s, err := svc.Open(m, b.Conns[0], kind, tag, nil)
	if err != nil {
		res.Verdict, res.Note = core.Inconclusive, "open failed: "+err.Error()
		finish(tier, b, h, res)
		return res
	}
	s.Send([]byte("one"))
	quiet(tier)
	switch idx % 3 {
	case 0:
		m.Cancel()
	case 1:
		m.Fire()
	default:
		s.SendMsg(struct{ X int }{1}) // cannot be encoded: aborts the stream locally
	}
	quiet(tier) // the reset is on the wire
	done := make(chan struct{})
	go func() {
		defer close(done)
		s.CloseSend()
		if kind == "client" {
			s.CloseAndRecv()
		}
	}()
	settle(tier, func() bool {
		select {
		case <-done:
			return true
		default:
			return false
		}
	})
	quiet(tier)
	res.Stat("closesend_after_reset", 1)
	svc.Invoke(context.Background(), b.Conns[0], fmt.Sprintf("csar-after%d", idx), []byte("x"))
	finish(tier, b, h, res)
	return res
}

// c06SetHeaderAfterFirstMessage: a handler whose first response carries no metadata tries to set
// headers afterwards (SetHeader / SendHeader / grpc.SetHeader), then sends again and returns with
// a trailer. Response metadata belongs to the first response envelope only: whatever the late
// calls return, none of it may ride on a later body or on the trailer (the wire automaton's rule).
func c06SetHeaderAfterFirstMessage(tier string, seed int64, idx int) *core.Result {
	res := &core.Result{Verdict: core.Held}
	h := bed.NewHooks()
	h.Install()
	b := bed.New(bed.Opts{Cap: idx % 3, Serialise: idx%2 == 0})
	kind := []string{"bidi", "server"}[idx%2]
	tag := fmt.Sprintf("shafm%d", idx)
	var lateErr atomic.Value
	b.Impl.SetStream(tag, func(t, k string, ss grpc.ServerStream) error {
		if k == "server" {
			ss.RecvMsg(new(svc.BV))
		}
		ss.SendMsg(&svc.BV{Value: []byte("first")})
		var err error
		switch idx % 3 {
		case 0:
			err = ss.SetHeader(metadata.Pairs("late", "header"))
		case 1:
			err = ss.SendHeader(metadata.Pairs("late", "header"))
		default:
			err = grpc.SetHeader(ss.Context(), metadata.Pairs("late", "header"))
		}
		if err != nil {
			lateErr.Store(err)
		}
		if idx%2 == 0 {
			ss.SendMsg(&svc.BV{Value: []byte("second")})
		}
		ss.SetTrailer(metadata.Pairs("t", "v"))
		return nil
	})
	done := make(chan struct{})
	var hdr metadata.MD
	go func() {
		defer close(done)
		s, err := svc.Open(context.Background(), b.Conns[0], kind, tag, []byte("q"))
		if err != nil {
			return
		}
		if kind == "bidi" {
			s.CloseSend()
		}
		for {
			if _, err := s.Recv(); err != nil {
				break
			}
		}
		hdr, _ = s.Header()
	}()
	settle(tier, func() bool {
		select {
		case <-done:
			return true
		default:
			return false
		}
	})
	quiet(tier)
	select {
	case <-done:
		if len(hdr.Get("late")) > 0 {
			res.Violate("late-header-delivered", "headers set after the first response message had gone out without metadata were delivered to the caller as the stream's header: %v", hdr)
		}
		res.Stat("setheader_after_first_message", 1)
	default:
		res.Verdict, res.Note = core.Inconclusive, "caller did not finish"
	}
	finish(tier, b, h, res)
	return res
}

// c06RefusedOpen: a stream open the server must refuse (undecodable request metadata), written
// raw onto a live connection next to ordinary traffic. The server's whole history for that id is
// one reset: no handler runs, nothing else is emitted.
func c06RefusedOpen(tier string, seed int64, idx int) *core.Result {
	res := &core.Result{Verdict: core.Held}
	h := bed.NewHooks()
	h.Install()
	b := bed.New(bed.Opts{Cap: idx % 3, Serialise: idx%2 == 0})
	var runs atomic.Int32
	b.Impl.DefS = func(t, k string, ss grpc.ServerStream) error {
		runs.Add(1)
		ss.SendMsg(&svc.BV{Value: []byte("m")})
		return nil
	}
	svc.Invoke(context.Background(), b.Conns[0], fmt.Sprintf("ro-before%d", idx), []byte("x"))
	method := []string{svc.MBidi, svc.MClient, svc.MServer}[idx%3]
	raw := &wire.Rpc{Id: 1 << 30, Header: &goatorepo.RequestHeader{Method: method, Source: "c0", Destination: "srv",
		Headers: []*goatorepo.KeyValue{{Key: "x-bin", Value: "!!!not base64!!!"}}}}
	done := make(chan error, 1)
	go func() { done <- b.Links[0].A.Write(context.Background(), raw) }()
	settle(tier, func() bool { return len(done) > 0 })
	quiet(tier)
	svc.Invoke(context.Background(), b.Conns[0], fmt.Sprintf("ro-after%d", idx), []byte("x"))
	quiet(tier)
	if n := runs.Load(); n != 0 {
		res.Violate("handler-ran-for-refused-open", "a stream open with undecodable request metadata was refused with a reset and its handler ran all the same (%d times)", n)
	}
	nS := 0
	for _, e := range b.Links[0].Tap.Log() {
		if e.Dir == 1 && e.Rpc.GetId() == 1<<30 {
			nS++
			if e.Rpc.GetReset_() == nil {
				res.Violate("refused-open-answered-with-more-than-a-reset", "the server emitted a %s envelope for an id whose open it refused", strings.ToLower(wire.Kind(e.Rpc)))
				break
			}
		}
	}
	if nS == 1 {
		res.Stat("refused_opens", 1)
	} else if len(res.Violations) == 0 {
		res.Violate("refused-open-answered-with-more-than-a-reset", "the server emitted %d envelopes for an id whose open it refused (want exactly one reset)", nS)
	}
	finish(tier, b, h, res)
	return res
}

// c06ResetAfterReturn: the handler sends a message and returns at once; its trailer is held in the
// server's writer while the caller cancels, so the client's reset reaches the server after the
// stream has been closed and unregistered there. The server has said its last word for the id.
func c06ResetAfterReturn(tier string, seed int64, idx int) *core.Result {
	res := &core.Result{Verdict: core.Held}
	h := bed.NewHooks()
	var mu sync.Mutex
	writes := map[uint64]int{}
	var target atomic.Uint64
	parked := make(chan struct{}, 1)
	release := make(chan struct{})
	h.On("srv.writer.beforeWrite", func(id uint64) {
		mu.Lock()
		writes[id]++
		n := writes[id]
		mu.Unlock()
		if id == target.Load() && n == 2 { // body, then the trailer
			select {
			case parked <- struct{}{}:
				<-release
			default:
			}
		}
	})
	h.Install()
	b := bed.New(bed.Opts{Cap: idx % 3, Serialise: idx%2 == 0})
	kind := []string{"bidi", "client"}[idx%2]
	tag := fmt.Sprintf("rar%d", idx)
	var runs atomic.Int32
	prog := func(t, k string, ss grpc.ServerStream) error {
		runs.Add(1)
		ss.SendMsg(&svc.BV{Value: []byte("m")})
		return nil
	}
	b.Impl.SetStream(tag, prog)
	// a real service picks the handler by method, not by the harness's tag header (which a reset
	// does not carry): whatever runs for this method is this program
	b.Impl.DefS = prog
	target.Store(1) // the connection's first call
	m := svc.NewManualCtx(context.Background())
	done := make(chan struct{})
	go func() {
		defer close(done)
		s, err := svc.Open(m, b.Conns[0], kind, tag, nil)
		if err != nil {
			return
		}
		for {
			if _, err := s.Recv(); err != nil {
				return
			}
		}
	}()
	quiet(tier)
	select {
	case <-parked:
		if idx%4 < 2 {
			m.Cancel()
		} else {
			m.Fire()
		}
		quiet(tier) // the client's reset has reached the server
		res.Stat("reset_after_handler_returned", 1)
	default:
	}
	close(release)
	settle(tier, func() bool {
		select {
		case <-done:
			return true
		default:
			return false
		}
	})
	quiet(tier)
	if n := runs.Load(); n > 1 {
		res.Violate("handler-restarted-by-stale-reset", "the handler of one streaming call ran %d times: a reset arriving after it had returned started it again", n)
	}
	finish(tier, b, h, res)
	return res
}

func c06Run(tier string, seed int64, idx int) *core.Result {
	c := c06List(tier, seed)[idx]
	bed.ResetRecent()
	var sub *core.Result
	switch c.Source {
	case "directed-send-across-cancel":
		sub = c06Directed(tier, seed, c.Index)
	case "directed-unary-deadline-in-handler":
		sub = c06UnaryDeadline(tier, seed, c.Index)
	case "directed-cancel-during-open-write":
		sub = c06CancelDuringOpen(tier, seed, c.Index)
	case "directed-reset-after-handler-returned":
		sub = c06ResetAfterReturn(tier, seed, c.Index)
	case "directed-open-on-ended-context":
		sub = c06OpenOnEndedContext(tier, seed, c.Index)
	case "directed-refused-open":
		sub = c06RefusedOpen(tier, seed, c.Index)
	case "directed-bodies-after-server-deadline":
		sub = c06BodiesAfterDeadline(tier, seed, c.Index)
	case "directed-closesend-after-reset":
		sub = c06CloseSendAfterReset(tier, seed, c.Index)
	case "directed-setheader-after-first-message":
		sub = c06SetHeaderAfterFirstMessage(tier, seed, c.Index)
	case "C01":
		sub = c01Run(tier, seed, c.Index)
	case "C02":
		sub = c02Run(tier, seed, c.Index)
	case "C03":
		if f := c03Gen(tier, seed, c.Index).Family; f == "loss-before-trailer" || f == "loss-after-trailer" || f == "foreign" {
			// these families break the connection or use a foreign peer: not "connection alive" histories
			return &core.Result{Verdict: core.Held, Sig: fmt.Sprintf("%+v", c), Sample: map[string]any{"case": c, "skipped": "faulted C03 family " + f}}
		}
		sub = c03Run(tier, seed, c.Index)
	case "C07":
		sub = c07Run(tier, seed, c.Index)
	case "C11":
		sub = c11Run(tier, seed, c.Index)
	}
	res := &core.Result{Verdict: core.Held, Sample: map[string]any{"case": c, "workload_case": sub.Sample}, Sig: fmt.Sprintf("%+v", c), Retire: sub.Retire}
	if sub.Verdict == core.Inconclusive {
		res.Verdict, res.Note = core.Inconclusive, "workload inconclusive: "+sub.Note
	}
	// each check reports only its own property: what the workload's own oracle found is not C06's business
	for k, v := range sub.Stats {
		if k == "send_parked_across_cancel" || k == "unary_deadline_in_handler" || k == "cancel_during_open_write" || k == "reset_after_handler_returned" || k == "open_on_ended_context" || k == "refused_opens" || k == "bodies_after_server_deadline" || k == "closesend_after_reset" || k == "setheader_after_first_message" {
			res.Stat(k, v)
		}
	}
	if strings.HasPrefix(c.Source, "directed-") {
		res.Violations = append(res.Violations, sub.Violations...) // the directed families are C06's own
		if len(sub.Violations) > 0 {
			res.Verdict = core.Violated
		}
	}
	for _, b := range bed.Recent {
		for li, l := range b.Links {
			viol, st := checkWire(l.Tap.Log(), b.Impl.ReturnedAt(), b.Impl.UnaryReturnedAt(), b.CloseSeq)
			for k, v := range st {
				res.Stat(k, v)
			}
			for _, v := range viol {
				if len(res.Violations) < 8 {
					res.ViolateD("wire/"+v.Key, map[string]any{"workload": c, "link": li, "trace": traceOf(l.Tap.Log(), 60)}, "%s workload case %d: %s", c.Source, c.Index, v.Msg)
				}
			}
			res.Stat("links_checked", 1)
		}
	}
	res.NonTrivial = res.Stats["projections_with_reset_or_error"] > 0
	res.SetAdd("workloads", c.Source)
	bed.ResetRecent()
	return res
}

func traceOf(log []*wire.Rec, max int) []string {
	var out []string
	for i, e := range log {
		if i >= max {
			out = append(out, "...")
			break
		}
		out = append(out, fmt.Sprintf("%s id=%d %s", map[int]string{0: "C->S", 1: "S->C"}[e.Dir], e.Rpc.GetId(), strings.ToLower(wire.Kind(e.Rpc))))
	}
	return out
}

func init() {
	core.Register(&core.Prop{
		ID:    "C06",
		Level: "exploration",
		Rule:  "trace checking: a fixed-seed sample of the C01, C02, C03 (matrix and race families), C07 and C11 case lists (quick ~850 cases, thorough ~11 500) is re-run and every client link's tap log is projected per (id, direction) and fed to the protocol automata (stream open / body* / trailer+status / resets; unary exactly one request and one response; constant and swapped header fields; metadata only on the first response; server emits only for received ids; server reset only after a body and never before the trailer; end-of-history rules: stream handler returned, no client reset, connection alive => trailer; unary handler returned, connection alive => one response; a client reset is never the first envelope of an id), plus directed families: a send parked across a cancel, a unary deadline expiring inside the handler, a cancel while the opening envelope is inside the transport Write, a client reset reaching the server after the handler returned (trailer held in the writer), a call started on a context that has already ended, a raw stream open with undecodable metadata next to ordinary traffic (the server answers with exactly one reset), bodies arriving after the server-side deadline of a stream whose handler is still running (no reset for a stream the server still knows; exactly one trailer when the handler then returns), a half-close issued by the application after the client has reset the stream (cancel, deadline, unencodable send) over a transport that completes writes on an ended context, a handler that tries to set headers after its first response went out without metadata (nothing of it may appear on a later envelope). evaluations = workload cases; non-trivial = the case's wire history contains a reset or a non-OK trailer; distinct = distinct (workload, index).",
		Plan:  func(tier string, seed int64) int { return len(c06List(tier, seed)) },
		Run:   c06Run,
		RequiredStats: func(string) []string {
			return []string{"projections", "projections_with_reset_or_error", "handler_returns_checked", "envelopes", "send_parked_across_cancel", "unary_deadline_in_handler", "cancel_during_open_write", "reset_after_handler_returned", "open_on_ended_context", "refused_opens", "bodies_after_server_deadline", "closesend_after_reset", "setheader_after_first_message"}
		},
		Assumptions: []string{"the automata are transcribed from README.md and the property statement", "only client-side links are checked (one client = one id space)"},
	})
}

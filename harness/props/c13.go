package props

import (
	"context"
	"fmt"
	"io"
	"strings"
	"sync"

	goat "github.com/avos-io/goat"
	"github.com/avos-io/goat/gen/goatorepo"
	"google.golang.org/grpc/metadata"
	"google.golang.org/grpc/stats"
	"google.golang.org/protobuf/proto"

	"goatverif/bed"
	"goatverif/core"
	"goatverif/svc"
	"goatverif/wire"
)

// C13: no envelope sequence from a peer can crash a client or leave a call hanging.

var c13Shapes = []string{
	"no-header-body", "explicit-ok+body+trailer", "explicit-ok+trailer", "err-status+trailer", "err-status+body+trailer",
	"bare-header", "bad-bin-header+body", "bad-bin-trailer", "header-md", "body",
	"trailer-ok", "trailer-err", "trailer-no-status", "reset+trailer", "reset-bare",
	"body+trailer-ok", "unary-reply", "garbage-body", "trailer-md", "body2",
	"bad-bin-trailer-err", "no-header-trailer-ok", "no-header-reset+trailer",
}

const c13NShapes = 23

const c13NSym = 3 * c13NShapes // 21 shapes x {call A, call B, unknown id}

func c13ShapeIndex(name string) int {
	for i, s := range c13Shapes {
		if s == name {
			return i
		}
	}
	panic("shape " + name)
}

func c13Payload(n int) []byte { return []byte(fmt.Sprintf("resp-%d", n)) }

// c13Envelope builds response number n of shape sym for the given id; it returns the payload
// carried in a decodable body (nil if none) and whether the envelope can end a stream successfully.
func c13Envelope(sym int, n int, id uint64, method string) (*wire.Rpc, []byte, bool) {
	shape := c13Shapes[sym%c13NShapes]
	hdr := func(kv ...*goatorepo.KeyValue) *goatorepo.RequestHeader {
		return &goatorepo.RequestHeader{Method: method, Source: "srv", Destination: "c0", Headers: kv}
	}
	pl := c13Payload(n)
	bb, _ := proto.Marshal(&svc.BV{Value: pl})
	body := &goatorepo.Body{Data: bb}
	okSt := &goatorepo.ResponseStatus{Code: 0, Message: "OK"}
	errSt := &goatorepo.ResponseStatus{Code: 7, Message: "denied"}
	switch shape {
	case "no-header-body":
		return &wire.Rpc{Id: id, Body: body}, pl, false
	case "explicit-ok+body+trailer":
		return &wire.Rpc{Id: id, Header: hdr(), Status: okSt, Body: body, Trailer: &goatorepo.Trailer{}}, pl, true
	case "explicit-ok+trailer":
		return &wire.Rpc{Id: id, Header: hdr(), Status: okSt, Trailer: &goatorepo.Trailer{}}, nil, true
	case "err-status+trailer":
		return &wire.Rpc{Id: id, Header: hdr(), Status: errSt, Trailer: &goatorepo.Trailer{}}, nil, false
	case "err-status+body+trailer":
		return &wire.Rpc{Id: id, Header: hdr(), Status: errSt, Body: body, Trailer: &goatorepo.Trailer{}}, pl, false
	case "no-header-trailer-ok":
		return &wire.Rpc{Id: id, Status: okSt, Trailer: &goatorepo.Trailer{}}, nil, true
	case "no-header-reset+trailer":
		return &wire.Rpc{Id: id, Reset_: &goatorepo.Reset{Type: "RST_STREAM"}, Trailer: &goatorepo.Trailer{}}, nil, false
	case "bare-header":
		return &wire.Rpc{Id: id, Header: hdr()}, nil, false
	case "bad-bin-header+body":
		return &wire.Rpc{Id: id, Header: hdr(&goatorepo.KeyValue{Key: "h-bin", Value: "%%%"}), Body: body}, pl, false
	case "bad-bin-trailer":
		return &wire.Rpc{Id: id, Header: hdr(), Status: okSt, Trailer: &goatorepo.Trailer{Metadata: []*goatorepo.KeyValue{{Key: "t-bin", Value: "%%%"}}}}, nil, true
	case "header-md":
		return &wire.Rpc{Id: id, Header: hdr(&goatorepo.KeyValue{Key: "k", Value: "v"})}, nil, false
	case "body", "body2":
		return &wire.Rpc{Id: id, Header: hdr(), Body: body}, pl, false
	case "trailer-ok":
		return &wire.Rpc{Id: id, Header: hdr(), Status: okSt, Trailer: &goatorepo.Trailer{}}, nil, true
	case "trailer-err":
		return &wire.Rpc{Id: id, Header: hdr(), Status: errSt, Trailer: &goatorepo.Trailer{}}, nil, false
	case "trailer-no-status":
		return &wire.Rpc{Id: id, Header: hdr(), Trailer: &goatorepo.Trailer{}}, nil, true
	case "reset+trailer":
		return &wire.Rpc{Id: id, Header: hdr(), Reset_: &goatorepo.Reset{Type: "RST_STREAM"}, Trailer: &goatorepo.Trailer{}}, nil, false
	case "reset-bare":
		return &wire.Rpc{Id: id, Header: hdr(), Reset_: &goatorepo.Reset{Type: "RST_STREAM"}}, nil, false
	case "body+trailer-ok":
		return &wire.Rpc{Id: id, Header: hdr(), Body: body, Status: okSt, Trailer: &goatorepo.Trailer{}}, pl, true
	case "unary-reply":
		return &wire.Rpc{Id: id, Header: hdr(), Body: body, Trailer: &goatorepo.Trailer{}}, pl, true
	case "garbage-body":
		return &wire.Rpc{Id: id, Header: hdr(), Body: &goatorepo.Body{Data: []byte{0x0a, 0xff, 0xff, 0xff, 0xff, 0x0f}}}, nil, false
	case "bad-bin-trailer-err":
		return &wire.Rpc{Id: id, Header: hdr(), Status: errSt, Trailer: &goatorepo.Trailer{Metadata: []*goatorepo.KeyValue{{Key: "t-bin", Value: "%%%"}}}}, nil, false
	case "trailer-md":
		return &wire.Rpc{Id: id, Header: hdr(), Status: okSt, Trailer: &goatorepo.Trailer{Metadata: []*goatorepo.KeyValue{{Key: "tk", Value: "tv"}}}}, nil, true
	}
	panic("shape")
}

type c13Case struct {
	Pairing string `json:"pairing"` // unary+stream | stream+stream
	Stats   bool   `json:"stats_handler"`
	Family  string `json:"family"` // enum | random
	Len     int    `json:"length,omitempty"`
	From    int64  `json:"from,omitempty"`
	To      int64  `json:"to,omitempty"`
	N       int    `json:"n,omitempty"`
}

func c13List(tier string) []c13Case {
	var out []c13Case
	type cfg struct {
		pairing string
		stats   bool
		maxLen  int
	}
	cfgs := []cfg{{"unary+stream", false, 3}, {"stream+stream", true, 2}, {"unary+stream", true, 2}, {"stream+stream", false, 2}, {"unary+abandoned-stream", false, 2}}
	batch := int64(3000)
	if tier == "thorough" {
		cfgs = []cfg{{"unary+stream", false, 4}, {"stream+stream", true, 3}, {"unary+stream", true, 3}, {"stream+stream", false, 3}, {"unary+abandoned-stream", false, 3}}
		batch = 30000
	}
	for _, cf := range cfgs {
		for L := 1; L <= cf.maxLen; L++ {
			total := int64(1)
			for i := 0; i < L; i++ {
				total *= c13NSym
			}
			for from := int64(0); from < total; from += batch {
				to := from + batch
				if to > total {
					to = total
				}
				out = append(out, c13Case{Pairing: cf.pairing, Stats: cf.stats, Family: "enum", Len: L, From: from, To: to})
			}
		}
		nr := 2
		if tier == "thorough" {
			nr = 20
		}
		for i := 0; i < nr; i++ {
			out = append(out, c13Case{Pairing: cf.pairing, Stats: cf.stats, Family: "random", N: 200})
		}
	}
	return out
}

type nopStats struct{}

func (nopStats) TagRPC(ctx context.Context, _ *stats.RPCTagInfo) context.Context   { return ctx }
func (nopStats) HandleRPC(context.Context, stats.RPCStats)                         {}
func (nopStats) TagConn(ctx context.Context, _ *stats.ConnTagInfo) context.Context { return ctx }
func (nopStats) HandleConn(context.Context, stats.ConnStats)                       {}

type c13Call struct {
	unary    bool
	tag      string
	id       uint64
	method   string
	mu       sync.Mutex
	ops      int // outstanding operations
	got      [][]byte
	err      error // unary: Invoke's error; stream: error ending the receive loop
	finished bool
}

func c13One(tier string, c c13Case, syms []int, res *core.Result, desc func() string) {
	l := wire.NewLink(64, false)
	ctx, cancel := context.WithCancel(context.Background())
	defer cancel()
	var pmu sync.Mutex
	ids := map[string]uint64{}
	peer := wire.NewPeer(ctx, l.B, func(p *wire.Peer, in *wire.Rpc) {
		for _, kv := range in.GetHeader().GetHeaders() {
			if kv.Key == svc.TagKey {
				pmu.Lock()
				if _, ok := ids[kv.Value]; !ok {
					ids[kv.Value] = in.GetId()
				}
				pmu.Unlock()
			}
		}
	})
	_ = peer
	var opts []goat.DialOption
	if c.Stats {
		opts = append(opts, goat.WithStatsHandler(nopStats{}))
	}
	cc := goat.NewClientConn(l.A, "c0", "srv", opts...)
	A := &c13Call{unary: c.Pairing != "stream+stream", tag: "A", method: svc.MBidi}
	abandonB := c.Pairing == "unary+abandoned-stream"
	bctx := svc.NewManualCtx(context.Background())
	B := &c13Call{tag: "B", method: svc.MBidi}
	if A.unary {
		A.method = svc.MUnary
	}
	var w Waiter
	start := func(cl *c13Call) {
		if cl.unary {
			w.Add(1)
			go func() {
				defer w.Done()
				got, err := svc.Invoke(context.Background(), cc, cl.tag, []byte("q"))
				cl.mu.Lock()
				cl.err = err
				if err == nil {
					cl.got = [][]byte{got}
				}
				cl.finished = true
				cl.mu.Unlock()
			}()
			return
		}
		w.Add(1)
		go func() {
			defer w.Done()
			var sctx context.Context = context.Background()
			if abandonB && cl.tag == "B" {
				sctx = bctx
			}
			s, err := svc.Open(sctx, cc, "bidi", cl.tag, nil)
			if err != nil {
				cl.mu.Lock()
				cl.err, cl.finished = err, true
				cl.mu.Unlock()
				return
			}
			if abandonB && cl.tag == "B" {
				// this caller never receives; it cancels after the first response envelope and
				// never looks at the stream again
				cl.mu.Lock()
				cl.err, cl.finished = context.Canceled, true
				cl.mu.Unlock()
				return
			}
			w.Add(1)
			go func() { defer w.Done(); s.Header() }()
			for {
				m, err := s.Recv()
				if err != nil {
					cl.mu.Lock()
					cl.err, cl.finished = err, true
					cl.mu.Unlock()
					break
				}
				cl.mu.Lock()
				cl.got = append(cl.got, m)
				cl.mu.Unlock()
			}
			s.Trailer()
		}()
	}
	start(A)
	start(B)
	// wait until the scripted server has seen both requests
	st, _ := settle(tier, func() bool { pmu.Lock(); defer pmu.Unlock(); return len(ids) == 2 })
	if st != "ok" {
		res.Verdict, res.Note = core.Inconclusive, "requests did not reach the scripted server: "+st
		l.Kill()
		return
	}
	pmu.Lock()
	A.id, B.id = ids["A"], ids["B"]
	pmu.Unlock()
	unknown := A.id + B.id + 1000
	// what each call was sent
	type sent struct {
		payload []byte
		canEnd  bool
	}
	addressed := map[uint64][]sent{}
	for n, s := range syms {
		var id uint64
		var method string
		switch s / c13NShapes {
		case 0:
			id, method = A.id, A.method
		case 1:
			id, method = B.id, B.method
		default:
			id, method = unknown, svc.MBidi
		}
		e, pl, canEnd := c13Envelope(s, n, id, method)
		addressed[id] = append(addressed[id], sent{pl, canEnd})
		if err := l.B.Write(ctx, e); err != nil {
			res.Verdict, res.Note = core.Inconclusive, "peer write failed"
			l.Kill()
			return
		}
		if abandonB && n == 0 {
			quiet(tier)
			bctx.Cancel()
		}
	}
	switch (len(syms) + syms[0]) % 3 {
	case 0:
		l.A.SetReadErr(io.EOF) // how net.Conn based transports report the peer closing
	case 1:
		// how a transport bound to a session context of its own (a Demux logical connection after
		// Stop) reports its end
		l.A.SetReadErr(fmt.Errorf("session ended: %w", context.Canceled))
	}
	// then the connection is closed: the client's read fails after exactly these envelopes
	l.A.FailReadAfter(len(syms))
	st, snap := settle(tier, func() bool { return w.Left() == 0 })
	switch st {
	case "stuck":
		res.ViolateD("call-hangs-after-connection-closed", map[string]any{"sequence": desc(), "goat_goroutines": goatParked(snap)},
			"after responses %s and the end of the connection, %d client operation(s) never return", desc(), w.Left())
	case "timeout":
		res.Verdict, res.Note = core.Inconclusive, "watchdog after "+desc()
	default:
		for _, cl := range []*c13Call{A, B} {
			cl.mu.Lock()
			got, err := cl.got, cl.err
			cl.mu.Unlock()
			// every returned message must be carried, in order, each at most once, by a body addressed to this call
			av := addressed[cl.id]
			j := 0
			for _, g := range got {
				found := false
				for j < len(av) {
					pl := av[j].payload
					j++
					if pl != nil && string(pl) == string(g) {
						found = true
						break
					}
				}
				if !found {
					res.Violate("call-returns-data-not-addressed-to-it", "after %s: call %s (%s) returned %q which no envelope addressed to it carried (in order)", desc(), cl.tag, cl.method, g)
					break
				}
			}
			if cl.unary {
				if err == nil && len(got) != 1 {
					res.Violate("unary-success-without-data", "after %s: unary call succeeded with %d replies", desc(), len(got))
				}
			} else if err == io.EOF {
				ended := false
				for _, a := range av {
					if a.canEnd {
						ended = true
					}
				}
				if !ended {
					res.Violate("stream-success-without-trailer", "after %s: stream %s ended with io.EOF but no envelope addressed to it carried a successful end", desc(), cl.tag)
				}
			} else if err == nil {
				res.Violate("stream-ended-without-result", "after %s: stream %s receive loop ended with a nil error", desc(), cl.tag)
			}
		}
	}
	l.Kill()
}

func c13Desc(syms []int) string {
	var parts []string
	for _, s := range syms {
		parts = append(parts, fmt.Sprintf("%s->%s", c13Shapes[s%c13NShapes], []string{"A", "B", "unknown"}[s/c13NShapes]))
	}
	return "[" + strings.Join(parts, ", ") + "]"
}

func c13Run(tier string, seed int64, idx int) *core.Result {
	c := c13List(tier)[idx]
	r := rng(seed, idx, "c13")
	res := &core.Result{Verdict: core.Held, Sample: c}
	if idx%8 == 7 {
		setGMP(4)
	} else {
		setGMP(1)
	}
	h := bed.NewHooks()
	h.Install()
	evals := int64(0)
	sampled := false
	run := func(syms []int) {
		evals++
		d := c13Desc(syms)
		core.Cursor(fmt.Sprintf("%s stats=%v %s", c.Pairing, c.Stats, d))
		if !sampled {
			sampled = true
			res.Sample = map[string]any{"case": c, "first_sequence": d}
		}
		c13One(tier, c, syms, res, func() string { return d })
	}
	switch c.Family {
	case "enum":
		for k := c.From; k < c.To && len(res.Violations) < 20; k++ {
			syms := make([]int, c.Len)
			v := k
			for i := c.Len - 1; i >= 0; i-- {
				syms[i] = int(v % c13NSym)
				v /= c13NSym
			}
			run(syms)
		}
		res.DistinctNT = evals
	default:
		for i := 0; i < c.N; i++ {
			syms := make([]int, 4+r.Intn(30))
			for j := range syms {
				syms[j] = r.Intn(c13NSym)
			}
			if c.Pairing == "unary+abandoned-stream" && i < 12 {
				// directed: k bodies for the abandoned stream, then the reply for the other call
				syms = nil
				for k := 0; k < 2+i%6; k++ {
					syms = append(syms, c13NShapes+c13ShapeIndex("body"))
				}
				syms = append(syms, c13ShapeIndex("unary-reply"))
			}
			run(syms)
		}
		res.NonTrivial = true
	}
	res.Evals = evals
	res.Stat("sequences", evals)
	res.Stat("sequences_"+c.Family, evals)
	if c.Stats {
		res.Stat("sequences_with_stats_handler", evals)
	}
	res.SetAdd("pairings", c.Pairing)
	res.Sig = fmt.Sprintf("%+v/%d", c, idx)
	bed.Uninstall()
	h.Fold(res)
	if left, final := bed.Hygiene(watchdog(tier)); !final || len(left) > 0 {
		res.Retire = true
	}
	_ = metadata.MD{}
	return res
}

func init() {
	core.Register(&core.Prop{
		ID:         "C13",
		Level:      "exploration",
		Rule:       "alphabet = 23 response shapes (incl. header-less bodies, trailers and resets) x addressed to {call A, call B, an unknown id} (69 symbols); a scripted server sends EVERY sequence up to length 3 (quick) / 4 (thorough) for the pairing unary+stream without stats handler and up to 2 / 3 for stream+stream and for both pairings with a stats handler, to a real client with the two calls outstanding (every accessor - Invoke, Header, receive loop, Trailer - in its own goroutine), then the connection is closed after exactly those envelopes (read error: a custom error, io.EOF or an error wrapping context.Canceled); a fifth configuration pairs the unary call with a stream whose caller never receives, cancels after the first envelope and never looks at it again (lengths up to 2 / 3, plus directed sequences of 2..7 bodies for it followed by the unary reply); plus seeded random sequences of length 4..33. Oracle: process alive, every operation returned at the final state, every message returned is carried in order by an envelope addressed to that call, unary success has data, stream io.EOF only after a successful end addressed to it.",
		Plan:       func(tier string, seed int64) int { return len(c13List(tier)) },
		Run:        c13Run,
		Exhaustive: func(string) bool { return true },
		RequiredStats: func(string) []string {
			return []string{"sequences_enum", "sequences_random", "sequences_with_stats_handler"}
		},
		Assumptions: []string{"exhaustive = every sequence over the 63-symbol alphabet up to the stated lengths per configuration"},
	})
}

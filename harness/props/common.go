// Package props holds one file per property: case generator, workload and oracle.
package props

import (
	"fmt"

	goat "github.com/avos-io/goat"
	"math/rand"
	"runtime"
	"strings"
	"sync"
	"time"

	"goatverif/bed"
	"goatverif/core"
	"goatverif/quiesce"
)

func rng(seed int64, idx int, salt string) *rand.Rand {
	h := int64(1469598103934665603)
	for _, c := range []byte(salt) {
		h = (h ^ int64(c)) * 1099511628211
	}
	return rand.New(rand.NewSource(seed*1000003 + int64(idx)*7919 + h))
}

var sizeClasses = []int{0, 1, 17, 1024, 4096, 65536}

func payload(r *rand.Rand, n int) []byte {
	b := make([]byte, n)
	r.Read(b)
	return b
}

func pick[T any](r *rand.Rand, xs []T) T { return xs[r.Intn(len(xs))] }

func watchdog(tier string) time.Duration {
	if tier == "thorough" {
		return 60 * time.Second
	}
	return 20 * time.Second
}

// Waiter counts outstanding harness operations.
type Waiter struct {
	mu   sync.Mutex
	left int
}

func (w *Waiter) Add(n int) { w.mu.Lock(); w.left += n; w.mu.Unlock() }
func (w *Waiter) Done()     { w.mu.Lock(); w.left--; w.mu.Unlock() }
func (w *Waiter) Left() int { w.mu.Lock(); defer w.mu.Unlock(); return w.left }

// settle waits until cond holds or the scenario has reached a final state.
// Returns "ok" (cond met), "stuck" (final state with cond false: nothing can
// ever change again) or "timeout" (inconclusive).
// spinGuard, when set by a check whose scenario can livelock (a goroutine of the library spinning
// on a failed transport never lets a final state come about), makes settle and quiet return as soon
// as it reports true; settle then answers "livelock".
var spinGuard func() bool

func settle(tier string, cond func() bool) (string, *quiesce.Snapshot) {
	if g := spinGuard; g != nil {
		inner := cond
		cond = func() bool { return inner() || g() }
		st, snap := settleRaw(tier, cond)
		if st == "ok" && !inner() {
			return "livelock", snap
		}
		return st, snap
	}
	return settleRaw(tier, cond)
}

func settleRaw(tier string, cond func() bool) (string, *quiesce.Snapshot) {
	// fast path: spin briefly without snapshots
	for i := 0; i < 200; i++ {
		if cond() {
			return "ok", nil
		}
		runtime.Gosched()
	}
	snap, final, met := quiesce.Wait(watchdog(tier), cond)
	if met {
		return "ok", snap
	}
	if final {
		return "stuck", snap
	}
	return "timeout", snap
}

// quiet waits for a final state (used as a stage boundary).
func quiet(tier string) (bool, *quiesce.Snapshot) {
	snap, final, _ := quiesce.Wait(watchdog(tier), spinGuard)
	return final, snap
}

func goatParked(snap *quiesce.Snapshot) []string {
	if snap == nil {
		return nil
	}
	var out []string
	for _, g := range snap.Goat() {
		top := ""
		for _, f := range g.Frames {
			if strings.HasPrefix(f, "github.com/avos-io/goat") {
				top = f
				break
			}
		}
		out = append(out, fmt.Sprintf("[%s] %s", g.State, top))
	}
	return out
}

// finish closes the bed and checks hygiene; leftover goat goroutines retire
// the child so that they cannot disturb later cases.
func finish(tier string, b *bed.Bed, h *bed.Hooks, res *core.Result) (left []*quiesce.G) {
	quiet(tier) // let replies that are on their way reach the wire before the connection is torn down
	b.Close()
	left, final := bed.Hygiene(watchdog(tier))
	bed.Uninstall()
	if h != nil {
		h.Fold(res)
	}
	res.Stat("quiesce_snapshots", quiesce.Snapshots)
	quiesce.Snapshots = 0
	for _, g := range left {
		top := ""
		for _, f := range g.Frames {
			if strings.HasPrefix(f, "github.com/avos-io/goat") {
				top = f
				break
			}
		}
		res.SetAdd("goat_goroutines_left_after_teardown", "["+g.State+"] "+top)
	}
	if !final || len(left) > 0 {
		res.Retire = true
		res.Stat("children_retired", 1)
	}
	return left
}

func errStr(err error) string {
	if err == nil {
		return "<nil>"
	}
	return err.Error()
}

func setGMP(n int) {
	if gmpOverride > 0 {
		n = gmpOverride // C15 chooses the number of OS threads itself
	}
	runtime.GOMAXPROCS(n)
}

func tierN(tier string, quick, thorough int) int {
	if tier == "thorough" {
		return thorough
	}
	return quick
}

// guarded runs a library call that must return promptly in its own goroutine, so that a call
// which never returns becomes a verdict (final state reached with the call pending) instead of
// hanging the case driver.
func guarded(tier string, res *core.Result, what string, f func()) bool {
	done := make(chan struct{})
	go func() { f(); close(done) }()
	st, snap := settle(tier, func() bool {
		select {
		case <-done:
			return true
		default:
			return false
		}
	})
	switch st {
	case "ok":
		return true
	case "stuck":
		res.ViolateD("library-call-never-returns/"+what, map[string]any{"goat_goroutines": goatParked(snap)}, "%s has not returned in a final state", what)
	default:
		if res.Verdict == core.Held {
			res.Verdict, res.Note = core.Inconclusive, "watchdog in "+what
		}
	}
	return false
}

// readErrSet reports, without ever blocking, whether the client connection has recorded a
// transport read error (false while the multiplexer's mutex is held by someone else).
func readErrSet(cc *goat.ClientConn) bool {
	err, ok := goat.VerifClientReadErrTry(cc)
	return ok && err != nil
}

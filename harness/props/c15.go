package props

import (
	goat "github.com/avos-io/goat"
	"github.com/avos-io/goat/gen/goatorepo"
	"goatverif/wire"
	"runtime"

	"context"
	"fmt"
	"sync"

	"google.golang.org/grpc"
	"google.golang.org/grpc/metadata"

	"goatverif/bed"
	"goatverif/core"
	"goatverif/svc"
)

// C15: API-permitted concurrent use is free of data races (race detector build).

type c15Case struct {
	Source string `json:"workload"`
	Index  int    `json:"index"`
	GMP    int    `json:"gomaxprocs"`
}

var gmpOverride int

func c15Sources(tier string) []struct {
	name string
	n    int
	want int
} {
	q := tier != "thorough"
	pick := func(a, b int) int {
		if q {
			return a
		}
		return b
	}
	return []struct {
		name string
		n    int
		want int
	}{
		{"C01", 116, pick(116, 116)},
		{"C02", 600, pick(300, 600)},
		{"C03", 144, pick(72, 144)},
		{"C04", 30, pick(30, 30)},
		{"C07", len(c07List("quick")), pick(120, 238)},
		{"C09", len(c09List("quick", 1)), pick(120, 242)},
		{"C10", len(c10List("quick", 1)), pick(90, 172)},
		{"C11", len(c11List("quick")), pick(190, 384)},
		{"C14", 80, pick(8, 40)},
		{"C16", len(c16List("quick")), pick(60, 96)},
		{"C17", len(c17List("quick")), pick(52, 52)},
		{"C18", len(c18List("quick")), pick(83, 83)},
		{"C19", len(c19List("quick")), pick(40, 40)},
		{"C20", len(c20List("quick")), pick(93, 93)},
		{"C05", len(c05List("quick")), pick(10, 38)},
		{"concurrent-accessors", 64, pick(64, 64)},
		{"proxy-attach-vs-failure", 24, pick(24, 24)},
		{"concurrent-aborts", 48, pick(48, 48)},
		{"websocket-streams", 6, pick(6, 6)},
	}
}

func c15List(tier string) []c15Case {
	var out []c15Case
	gmps := []int{1, 2, 4, 16}
	rounds := 1
	if tier == "thorough" {
		rounds = 4
	}
	i := 0
	for rd := 0; rd < rounds; rd++ {
		for _, s := range c15Sources(tier) {
			for k := 0; k < s.want; k++ {
				i++
				g := gmps[(i+rd)%4]
				out = append(out, c15Case{s.name, k * s.n / s.want, g})
			}
		}
	}
	return out
}

func c15Run(tier string, seed int64, idx int) *core.Result {
	c := c15List(tier)[idx]
	gmpOverride = c.GMP
	setGMP(c.GMP)
	defer func() { gmpOverride = 0 }()
	var sub *core.Result
	qs := "quick" // the workloads are the other checks' quick case lists
	switch c.Source {
	case "C01":
		sub = c01Run(qs, seed, c.Index)
	case "C02":
		sub = c02Run(qs, seed, c.Index)
	case "C03":
		sub = c03Run(qs, seed, c.Index)
	case "C04":
		sub = c04Run(qs, seed, c.Index)
	case "C05":
		sub = c05Run(qs, seed, c.Index)
	case "C07":
		sub = c07Run(qs, seed, c.Index)
	case "C09":
		sub = c09Run(qs, seed, c.Index)
	case "C10":
		sub = c10Run(qs, seed, c.Index)
	case "C11":
		sub = c11Run(qs, seed, c.Index)
	case "C14":
		sub = c14Run(qs, seed, c.Index)
	case "C16":
		sub = c16Run(qs, seed, c.Index)
	case "C17":
		sub = c17Run(qs, seed, c.Index)
	case "C18":
		sub = c18Run(qs, seed, c.Index)
	case "C19":
		sub = c19Run(qs, seed, c.Index)
	case "C20":
		sub = c20Run(qs, seed, c.Index)
	case "concurrent-accessors":
		sub = c15Accessors(qs, seed, c.Index)
	case "proxy-attach-vs-failure":
		sub = c15ProxyAttach(qs, seed, c.Index)
	case "concurrent-aborts":
		sub = c15Aborts(qs, seed, c.Index)
	case "websocket-streams":
		sub = &core.Result{Verdict: core.Held}
		wsWorkload(seed, c.Index, wsGen(c.Index, true), "isolation", sub)
	}
	res := &core.Result{Verdict: core.Held, Sample: c, Sig: fmt.Sprintf("%+v", c), NonTrivial: c.GMP > 1, Retire: sub.Retire}
	// only race reports (collected by the parent from the detector's log) count here; the
	// workload's own verdict belongs to its own property
	res.Stat("workload_cases_under_race_detector", 1)
	res.SetAdd("workloads", c.Source)
	res.SetAdd("gomaxprocs", fmt.Sprint(c.GMP))
	for k, v := range sub.Stats {
		if len(k) > 5 && k[:5] == "hook:" || k == "concurrent_accessor_streams" || k == "proxy_attach_rounds" || k == "concurrent_abort_streams" {
			res.Stat(k, v)
		}
	}
	if sub.Verdict == core.Inconclusive {
		res.Stat("workload_inconclusive", 1)
	}
	return res
}

func init() {
	core.Register(&core.Prop{
		ID:    "C15",
		Level: "exploration",
		Race:  true,
		Rule:  "the quick case lists of C01-C05, C07, C09-C11, C14, C16-C20 (unary and stream workloads with separate sender/receiver goroutines, Header/Trailer concurrent with sends, cancellations, Stop and transport failures concurrent with traffic, proxy and demux with up to 8 peers, HTTP cleaner) plus a dedicated workload in which every accessor the API allows to run concurrently does so (handler goroutines SetHeader/SendHeader, SendMsg, SetTrailer, RecvMsg; caller goroutines Header, Recv, Send+CloseSend, Trailer; unary calls alongside whose handlers leave a goroutine behind that keeps calling grpc.SetHeader / grpc.SetTrailer while and after the handler returns), a proxy workload in which peers are attached by goroutines of their own (as an accept loop does) while other peers' connections fail, are dialled or forward traffic, and a workload in which a stream is aborted from its sending and its receiving goroutine at the same time (send of an unmarshalable message / write failure vs. undecodable response) are re-run in a binary built with -race, GOMAXPROCS cycling over {1,2,4,16}, with the seeded yield/sleep plans at every hook point; every race-detector report with a goat frame in either stack is a violation (de-duplicated by innermost goat frames), a report without goat frames fails the run as a harness bug. evaluations = workload cases run under the detector; non-trivial = run on more than one OS thread; distinct = (workload, index, GOMAXPROCS).",
		Plan:  func(tier string, seed int64) int { return len(c15List(tier)) },
		Run:   c15Run,
		RequiredStats: func(string) []string {
			return []string{"workload_cases_under_race_detector", "hook:cs.recv.window", "hook:srv.writer.beforeWrite", "hook:proxy.forward", "hook:demux.handoff", "hook:http.deliver", "hook:mux.beforeDispatch", "concurrent_accessor_streams", "proxy_attach_rounds", "concurrent_abort_streams"}
		},
		Assumptions: []string{"the race detector only sees pairs of accesses that both executed within its history window; no report is not race freedom"},
	})
}

// c15Accessors: every accessor the API allows to run concurrently does run concurrently, on both
// sides of one bidi stream plus unary calls on the same connection: handler goroutines SetHeader /
// SendHeader, SendMsg, SetTrailer and RecvMsg; caller goroutines Header, Recv, Send+CloseSend,
// Context, then Trailer. No functional oracle: this workload exists for the race detector.
func c15Accessors(tier string, seed int64, idx int) *core.Result {
	res := &core.Result{Verdict: core.Held}
	h := bed.NewHooks()
	h.Jitter = uint64(seed)*41 + uint64(idx) + 1
	h.Install()
	b := bed.New(bed.Opts{Cap: idx % 3, Serialise: idx%2 == 0})
	cc := b.Conns[0]
	n := 2 + idx%3
	for s := 0; s < n; s++ {
		tag := fmt.Sprintf("acc%d-%d", idx, s)
		b.Impl.SetStream(tag, func(t, k string, ss grpc.ServerStream) error {
			var wg sync.WaitGroup
			wg.Add(3)
			go func() {
				defer wg.Done()
				ss.SetHeader(metadata.Pairs("h1", "v"))
				ss.SendHeader(metadata.Pairs("h2", "v"))
			}()
			go func() {
				defer wg.Done()
				for i := 0; i < 3; i++ {
					ss.SendMsg(&svc.BV{Value: []byte{byte(i)}})
				}
			}()
			go func() {
				defer wg.Done()
				ss.SetTrailer(metadata.Pairs("t1", "v"))
				grpc.SetTrailer(ss.Context(), metadata.Pairs("t2", "v"))
			}()
			for {
				var m svc.BV
				if err := ss.RecvMsg(&m); err != nil {
					break
				}
			}
			wg.Wait()
			return nil
		})
	}
	// a unary handler that leaves a goroutine behind which goes on setting response metadata on the
	// call's context while, and shortly after, the handler returns (grpc.SetHeader / SetTrailer may
	// be called from any goroutine; late calls may fail but must not race with the reply being built)
	var stragglers sync.WaitGroup
	for s := 0; s < n; s++ {
		b.Impl.SetUnary("u-"+fmt.Sprintf("acc%d-%d", idx, s), func(ctx context.Context, t string, req []byte) ([]byte, error) {
			grpc.SetHeader(ctx, metadata.Pairs("uh", "first"))
			grpc.SetTrailer(ctx, metadata.Pairs("ut", "first"))
			stragglers.Add(1)
			go func() {
				defer stragglers.Done()
				for i := 0; i < 40; i++ {
					grpc.SetHeader(ctx, metadata.Pairs("uh", "late"))
					grpc.SetTrailer(ctx, metadata.Pairs("ut", "late"))
					runtime.Gosched()
				}
			}()
			return req, nil
		})
	}
	var w Waiter
	for s := 0; s < n; s++ {
		tag := fmt.Sprintf("acc%d-%d", idx, s)
		w.Add(1)
		go func() {
			defer w.Done()
			st, err := svc.Open(context.Background(), cc, "bidi", tag, nil)
			if err != nil {
				return
			}
			var wg sync.WaitGroup
			wg.Add(3)
			go func() { defer wg.Done(); st.Header(); _ = st.Context().Err() }()
			go func() {
				defer wg.Done()
				for i := 0; i < 3; i++ {
					st.Send([]byte{byte(i)})
				}
				st.CloseSend()
			}()
			go func() {
				defer wg.Done()
				for {
					if _, err := st.Recv(); err != nil {
						break
					}
				}
				st.Trailer()
			}()
			wg.Wait()
		}()
		w.Add(1)
		go func() { defer w.Done(); svc.Invoke(context.Background(), cc, "u-"+tag, []byte("x")) }()
	}
	st, _ := settle(tier, func() bool { return w.Left() == 0 })
	if st != "ok" {
		res.Verdict, res.Note = core.Inconclusive, "concurrent-accessor workload did not finish: "+st
	}
	stragglers.Wait()
	res.Stat("concurrent_accessor_streams", int64(n))
	finish(tier, b, h, res)
	return res
}

// c15ProxyAttach: peers are attached to a running proxy by goroutines of their own (an accept
// loop), with nothing ordering the attachment against what the proxy's serve loop does meanwhile:
// another peer's connection failing, an envelope being forwarded, a destination being dialled.
func c15ProxyAttach(tier string, seed int64, idx int) *core.Result {
	res := &core.Result{Verdict: core.Held}
	h := bed.NewHooks()
	h.Jitter = uint64(seed)*43 + uint64(idx) + 1
	h.Install()
	ctx, cancel := context.WithCancel(context.Background())
	var mu sync.Mutex
	disc := 0
	var links []*wire.Link
	mk := func() *wire.Link {
		l := wire.NewLink(4, idx%2 == 0)
		mu.Lock()
		links = append(links, l)
		mu.Unlock()
		wire.NewPeer(ctx, l.A, func(_ *wire.Peer, in *wire.Rpc) {})
		return l
	}
	px := goat.NewProxy(ctx, "px", func(id string) (goat.RpcReadWriter, error) {
		if len(id) > 0 && id[0] == 'd' {
			return mk().B, nil
		}
		return nil, fmt.Errorf("cannot dial %q", id)
	}, nil, func(id string, reason error) {
		mu.Lock()
		disc++
		mu.Unlock()
	})
	served := make(chan struct{})
	go func() { px.Serve(); close(served) }()
	rounds := 6
	for r := 0; r < rounds; r++ {
		la := mk()
		an := fmt.Sprintf("a%d", r)
		px.AddClient(an, la.B)
		start := make(chan struct{})
		var w Waiter
		w.Add(2)
		go func() { // the accept loop attaching the next peer
			defer w.Done()
			<-start
			spin(idx + r)
			px.AddClient(fmt.Sprintf("b%d", r), mk().B)
		}()
		go func() { // meanwhile, on a's connection
			defer w.Done()
			<-start
			spin(2*idx + r + 1)
			switch (idx + r) % 3 {
			case 0:
				la.B.FailRead()
			case 1: // an envelope to a destination that has to be dialled
				la.A.Write(ctx, &wire.Rpc{Id: 1, Header: &goatorepo.RequestHeader{Method: "/x/y", Source: an, Destination: fmt.Sprintf("d%d-%d", idx, r)}, Body: &goatorepo.Body{Data: []byte{1}}})
			default: // an envelope to an unknown destination (dial fails), then a failure
				la.A.Write(ctx, &wire.Rpc{Id: 1, Header: &goatorepo.RequestHeader{Method: "/x/y", Source: an, Destination: "nowhere"}, Body: &goatorepo.Body{Data: []byte{1}}})
				la.B.FailRead()
			}
		}()
		close(start)
		if st, _ := settle(tier, func() bool { return w.Left() == 0 }); st != "ok" {
			res.Verdict, res.Note = core.Inconclusive, "proxy attach workload did not finish: "+st
			break
		}
		quiet(tier)
		res.Stat("proxy_attach_rounds", 1)
	}
	cancel()
	mu.Lock()
	for _, l := range links {
		l.Kill()
	}
	mu.Unlock()
	left, final := bed.Hygiene(watchdog(tier))
	bed.Uninstall()
	h.Fold(res)
	if !final || len(left) > 0 {
		res.Retire = true
	}
	return res
}

// spin burns a little CPU without synchronising with anything.
func spin(n int) {
	x := 0
	for i := 0; i < (n%7)*300; i++ {
		x += i
	}
	_ = x
}

// c15Aborts: one stream is aborted from its sending goroutine (a message that cannot be
// marshalled, or a failing transport write) and from its receiving goroutine (a response that
// cannot be decoded into the caller's message) at the same time.
func c15Aborts(tier string, seed int64, idx int) *core.Result {
	res := &core.Result{Verdict: core.Held}
	h := bed.NewHooks()
	h.Jitter = uint64(seed)*47 + uint64(idx) + 1
	h.Install()
	b := bed.New(bed.Opts{Cap: idx % 3, Serialise: idx%2 == 0})
	cc := b.Conns[0]
	n := 3
	var w Waiter
	for s := 0; s < n; s++ {
		tag := fmt.Sprintf("ab%d-%d", idx, s)
		b.Impl.SetStream(tag, func(t, k string, ss grpc.ServerStream) error {
			ss.SendMsg(&svc.BV{Value: []byte("r")})
			<-ss.Context().Done()
			return nil
		})
		st, err := svc.Open(context.Background(), cc, "bidi", tag, nil)
		if err != nil {
			continue
		}
		quiet(tier) // the response is queued on the stream
		start := make(chan struct{})
		w.Add(2)
		go func() {
			defer w.Done()
			<-start
			spin(idx + s)
			if (idx/3)%2 == 0 {
				st.SendMsg("not a protobuf message")
			} else {
				b.Links[0].A.FailWriteAt(b.Links[0].A.Writes(), true)
				st.Send([]byte("x"))
			}
		}()
		go func() {
			defer w.Done()
			<-start
			spin(idx/2 + 2*s + 1)
			var notProto string
			st.RecvMsg(&notProto)
			st.Trailer() // allowed once RecvMsg has returned an error
		}()
		close(start)
		if r, _ := settle(tier, func() bool { return w.Left() == 0 }); r != "ok" {
			res.Verdict, res.Note = core.Inconclusive, "concurrent abort workload did not finish: "+r
			break
		}
		res.Stat("concurrent_abort_streams", 1)
	}
	finish(tier, b, h, res)
	return res
}

package props

import (
	"context"
	"fmt"
	"io"
	"math/rand"
	"strings"
	"sync"
	"time"

	goat "github.com/avos-io/goat"
	"github.com/avos-io/goat/gen/goatorepo"
	"google.golang.org/grpc"
	"google.golang.org/protobuf/proto"

	"goatverif/bed"
	"goatverif/core"
	"goatverif/svc"
	"goatverif/wire"
)

// C12: no envelope sequence from a peer can crash or stall a server.

var c12Shapes = []string{
	"no-header", "empty-method", "slashless-method", "unknown-service", "unknown-method",
	"wrong-dest-unary", "wrong-dest-open", "unary", "unary-no-body", "unary-bad-body",
	"unary-bad-bin-md", "open-bad-bin-md", "unary-with-trailer", "open-bidi", "open-client",
	"body", "bad-body", "trailer-ok", "trailer-err", "reset",
	"reset-unknown-type", "body+trailer", "unary-tiny-timeout", "unary-bad-timeout", "open-id0",
	"empty-body", "dest-differs-in-case-unary", "dest-differs-in-case-open", "trailer-no-status",
}

const c12NShapes = 29

const c12NSym = 2 * c12NShapes // shapes x 2 ids

const c12ProbeID = 1000003

var c12Body []byte

func init() { c12Body, _ = proto.Marshal(&svc.BV{Value: []byte("payload")}) }

func c12Envelope(sym int, n int) *wire.Rpc {
	shape := c12Shapes[sym%c12NShapes]
	id := uint64(1 + sym/c12NShapes)
	tag := fmt.Sprintf("x%d", n)
	kv := func(extra ...*goatorepo.KeyValue) []*goatorepo.KeyValue {
		return append([]*goatorepo.KeyValue{{Key: svc.TagKey, Value: tag}}, extra...)
	}
	hdr := func(method string) *goatorepo.RequestHeader {
		return &goatorepo.RequestHeader{Method: method, Source: "c0", Destination: "srv", Headers: kv()}
	}
	body := &goatorepo.Body{Data: c12Body}
	okSt := &goatorepo.ResponseStatus{Code: 0, Message: "OK"}
	switch shape {
	case "no-header":
		return &wire.Rpc{Id: id, Body: body}
	case "empty-method":
		return &wire.Rpc{Id: id, Header: hdr(""), Body: body}
	case "slashless-method":
		return &wire.Rpc{Id: id, Header: hdr("nomethod"), Body: body}
	case "unknown-service":
		return &wire.Rpc{Id: id, Header: hdr("/nope.Svc/Unary"), Body: body}
	case "unknown-method":
		return &wire.Rpc{Id: id, Header: hdr("/verif.Svc/Nope"), Body: body}
	case "wrong-dest-unary":
		h := hdr(svc.MUnary)
		h.Destination = "someone-else"
		return &wire.Rpc{Id: id, Header: h, Body: body}
	case "wrong-dest-open":
		h := hdr(svc.MBidi)
		h.Destination = "someone-else"
		return &wire.Rpc{Id: id, Header: h}
	case "dest-differs-in-case-unary":
		h := hdr(svc.MUnary)
		h.Destination = "SRV" // another peer's name: names are compared exactly
		return &wire.Rpc{Id: id, Header: h, Body: body}
	case "dest-differs-in-case-open":
		h := hdr(svc.MBidi)
		h.Destination = "Srv"
		return &wire.Rpc{Id: id, Header: h}
	case "unary":
		return &wire.Rpc{Id: id, Header: hdr(svc.MUnary), Body: body}
	case "unary-no-body":
		return &wire.Rpc{Id: id, Header: hdr(svc.MUnary)}
	case "unary-bad-body":
		return &wire.Rpc{Id: id, Header: hdr(svc.MUnary), Body: &goatorepo.Body{Data: []byte{0xff, 0xff, 0xff, 0x01}}}
	case "unary-bad-bin-md":
		h := hdr(svc.MUnary)
		h.Headers = kv(&goatorepo.KeyValue{Key: "x-bin", Value: "!!!not base64!!!"})
		return &wire.Rpc{Id: id, Header: h, Body: body}
	case "open-bad-bin-md":
		h := hdr(svc.MBidi)
		h.Headers = kv(&goatorepo.KeyValue{Key: "x-bin", Value: "!!!not base64!!!"})
		return &wire.Rpc{Id: id, Header: h}
	case "unary-with-trailer":
		return &wire.Rpc{Id: id, Header: hdr(svc.MUnary), Body: body, Status: okSt, Trailer: &goatorepo.Trailer{}}
	case "open-bidi":
		return &wire.Rpc{Id: id, Header: hdr(svc.MBidi)}
	case "open-client":
		return &wire.Rpc{Id: id, Header: hdr(svc.MClient)}
	case "body":
		return &wire.Rpc{Id: id, Header: hdr(svc.MBidi), Body: body}
	case "bad-body":
		return &wire.Rpc{Id: id, Header: hdr(svc.MBidi), Body: &goatorepo.Body{Data: []byte{0xff, 0xff, 0xff, 0x01}}}
	case "empty-body":
		// a message whose encoding has no bytes (every field at its default): still a body
		return &wire.Rpc{Id: id, Header: hdr(svc.MBidi), Body: &goatorepo.Body{Data: []byte{}}}
	case "trailer-ok":
		return &wire.Rpc{Id: id, Header: hdr(svc.MBidi), Status: okSt, Trailer: &goatorepo.Trailer{}}
	case "trailer-no-status":
		// a half-close that leaves the optional status out
		return &wire.Rpc{Id: id, Header: hdr(svc.MBidi), Trailer: &goatorepo.Trailer{}}
	case "trailer-err":
		return &wire.Rpc{Id: id, Header: hdr(svc.MBidi), Status: &goatorepo.ResponseStatus{Code: 10, Message: "aborted"}, Trailer: &goatorepo.Trailer{}}
	case "reset":
		return &wire.Rpc{Id: id, Header: hdr(svc.MBidi), Reset_: &goatorepo.Reset{Type: "RST_STREAM"}}
	case "reset-unknown-type":
		return &wire.Rpc{Id: id, Header: hdr(svc.MBidi), Reset_: &goatorepo.Reset{Type: "SOMETHING_ELSE"}}
	case "body+trailer":
		return &wire.Rpc{Id: id, Header: hdr(svc.MBidi), Body: body, Status: okSt, Trailer: &goatorepo.Trailer{}}
	case "unary-tiny-timeout":
		h := hdr(svc.MUnary)
		h.Headers = kv(&goatorepo.KeyValue{Key: "grpc-timeout", Value: "1n"})
		return &wire.Rpc{Id: id, Header: h, Body: body}
	case "unary-bad-timeout":
		h := hdr(svc.MUnary)
		h.Headers = kv(&goatorepo.KeyValue{Key: "grpc-timeout", Value: "-5S"})
		return &wire.Rpc{Id: id, Header: h, Body: body}
	case "open-id0":
		return &wire.Rpc{Id: 0, Header: hdr(svc.MBidi)}
	}
	panic("shape")
}

type c12Case struct {
	Family string `json:"family"` // enum | mutate | random
	Len    int    `json:"length,omitempty"`
	From   int64  `json:"from,omitempty"`
	To     int64  `json:"to,omitempty"`
	N      int    `json:"n,omitempty"`
}

func c12List(tier string) []c12Case {
	var out []c12Case
	maxLen := 3
	batch := int64(2500)
	if tier == "thorough" {
		maxLen = 4
		batch = 20000
	}
	for L := 1; L <= maxLen; L++ {
		total := int64(1)
		for i := 0; i < L; i++ {
			total *= c12NSym
		}
		for from := int64(0); from < total; from += batch {
			to := from + batch
			if to > total {
				to = total
			}
			out = append(out, c12Case{Family: "enum", Len: L, From: from, To: to})
		}
	}
	if tier == "thorough" {
		for i := 0; i < 20; i++ {
			out = append(out, c12Case{Family: "random5", N: 5000})
		}
	}
	nm, nr := 4, 4
	if tier == "thorough" {
		nm, nr = 40, 40
	}
	for i := 0; i < nm; i++ {
		out = append(out, c12Case{Family: "mutate", N: 250})
	}
	for i := 0; i < nr; i++ {
		out = append(out, c12Case{Family: "random", N: 125})
	}
	for i := 0; i < nm; i++ {
		out = append(out, c12Case{Family: "half-duplex", N: 125})
	}
	for i := 0; i < 4; i++ {
		out = append(out, c12Case{Family: "two-sources", N: i})
	}
	return out
}

type c12Env struct {
	impl                  *svc.Impl
	srv                   *goat.Server
	mu                    sync.Mutex
	unaryRuns, streamRuns int
	probeRuns             int
}

// c12One feeds one envelope sequence to a fresh server connection and checks it.
func c12NewEnv() *c12Env {
	env := &c12Env{impl: svc.NewImpl(), srv: goat.NewServer("srv")}
	env.srv.RegisterService(&svc.Desc, env.impl)
	env.impl.DefU = func(ctx context.Context, tag string, req []byte) ([]byte, error) {
		env.mu.Lock()
		if tag == "probe" {
			env.probeRuns++
		} else {
			env.unaryRuns++
		}
		env.mu.Unlock()
		return req, nil
	}
	env.impl.DefS = func(tag, kind string, ss grpc.ServerStream) error {
		env.mu.Lock()
		env.streamRuns++
		n := env.streamRuns
		env.mu.Unlock()
		if n%2 == 1 {
			return nil // returns at once: every later envelope for the id finds an abandoned / unknown stream
		}
		for {
			var m svc.BV
			if err := ss.RecvMsg(&m); err != nil {
				if err == io.EOF {
					return nil
				}
				return err
			}
			if err := ss.SendMsg(&m); err != nil {
				return err
			}
		}
	}
	return env
}

func c12One(tier string, _ *c12Env, seq []*wire.Rpc, syms []int, res *core.Result, desc func() string) bool {
	return c12OneMode(tier, seq, syms, res, desc, false)
}

// c12SlowReader makes the half-duplex peer wait 1.2 s before it starts reading.
var c12SlowReader bool

// c12OneMode: halfDuplex = the peer writes its whole batch (sequence + probe) before it reads anything.
func c12OneMode(tier string, seq []*wire.Rpc, syms []int, res *core.Result, desc func() string, halfDuplex bool) bool {
	goat.VerifResetTracking()
	env := c12NewEnv() // a fresh server per sequence: late handlers of an earlier sequence cannot disturb the counts
	l := wire.NewLink(4, false)
	if halfDuplex {
		l = wire.NewLink(0, false)
	}
	ctx, cancel := context.WithCancel(context.Background())
	env.mu.Lock()
	env.unaryRuns, env.streamRuns, env.probeRuns = 0, 0, 0
	env.mu.Unlock()
	served := make(chan struct{})
	go func() { env.srv.Serve(ctx, l.B); close(served) }()
	var rmu sync.Mutex
	resets := map[uint64]int{}
	var probeReply *wire.Rpc
	probeCh := make(chan struct{})
	react := func(p *wire.Peer, in *wire.Rpc) {
		rmu.Lock()
		if in.GetReset_() != nil {
			resets[in.GetId()]++
		}
		if in.GetId() == c12ProbeID && probeReply == nil {
			probeReply = in
			close(probeCh)
		}
		rmu.Unlock()
	}
	if !halfDuplex {
		wire.NewPeer(ctx, l.A, react)
	}
	fed := make(chan struct{})
	go func() {
		defer close(fed)
		for _, e := range seq {
			if err := l.A.Write(ctx, e); err != nil {
				return
			}
		}
		probe := &wire.Rpc{Id: c12ProbeID, Header: &goatorepo.RequestHeader{Method: svc.MUnary, Source: "c0", Destination: "srv",
			Headers: []*goatorepo.KeyValue{{Key: svc.TagKey, Value: "probe"}}}, Body: &goatorepo.Body{Data: c12Body}}
		l.A.Write(ctx, probe)
	}()
	if halfDuplex {
		// the peer reads only once its whole batch has been taken by the server
		st, snap := settle(tier, func() bool {
			select {
			case <-fed:
				return true
			default:
				return false
			}
		})
		if st == "stuck" {
			res.ViolateD("server-stops-reading-from-half-duplex-peer", map[string]any{"sequence": desc(), "goat_goroutines": goatParked(snap)}, "a peer that writes %s and a probe before reading anything: the server stops reading (final state with the peer's write pending)", desc())
			l.Kill()
			cancel()
			<-fed
			return false
		}
		if c12SlowReader {
			// ... and not for another 1.2 s (of real time): answers that had to wait are still owed
			time.Sleep(1200 * time.Millisecond)
			res.Stat("half_duplex_slow_reader_sequences", 1)
		}
		wire.NewPeer(ctx, l.A, react)
	}
	ok := true
	st, snap := settle(tier, func() bool {
		select {
		case <-probeCh:
			return true
		default:
			return false
		}
	})
	switch st {
	case "stuck":
		res.ViolateD("server-stops-serving", map[string]any{"sequence": desc(), "goat_goroutines": goatParked(snap)}, "after %s a valid probe request is never answered (final state)", desc())
		ok = false
	case "timeout":
		res.Verdict, res.Note = core.Inconclusive, "watchdog waiting for probe after "+desc()
		ok = false
	default:
		rmu.Lock()
		pr := probeReply
		rmu.Unlock()
		var bv svc.BV
		if pr.GetStatus() != nil && pr.GetStatus().GetCode() != 0 || pr.GetBody() == nil || proto.Unmarshal(pr.GetBody().GetData(), &bv) != nil || string(bv.Value) != "payload" {
			res.Violate("probe-answered-wrongly", "after %s the probe reply is wrong: status=%v", desc(), pr.GetStatus())
			ok = false
		}
	}
	if ok && syms != nil {
		// reference expectations (timing-independent parts)
		minU, maxU := 0, 0
		opened := map[uint64]bool{}
		expResets := map[uint64]int{}
		anyOpen := 0
		for _, s := range syms {
			id := uint64(1 + s/c12NShapes)
			switch c12Shapes[s%c12NShapes] {
			case "unary", "unary-no-body", "unary-tiny-timeout", "unary-bad-timeout":
				minU++
				maxU++
			case "unary-with-trailer":
				maxU++
			case "open-bidi", "open-client", "reset-unknown-type":
				opened[id] = true
				anyOpen++
			case "open-id0":
				opened[0] = true
				anyOpen++
			case "body", "bad-body", "empty-body", "body+trailer", "open-bad-bin-md":
				expResets[id]++
			}
		}
		// resets are sent asynchronously: wait until the expected ones for never-opened ids arrived
		need := func() bool {
			rmu.Lock()
			defer rmu.Unlock()
			for id, n := range expResets {
				if !opened[id] && resets[id] < n {
					return false
				}
			}
			// the 8 unary workers run concurrently with the probe: wait for the expected invocations
			env.mu.Lock()
			defer env.mu.Unlock()
			return env.unaryRuns >= minU
		}
		if st2, _ := settle(tier, need); st2 == "stuck" {
			rmu.Lock()
			res.Violate("missing-reset-or-unary-invocation", "after %s: resets received %v, expected for never-opened ids %v; unary handler invocations expected >= %d", desc(), resets, expResets, minU)
			rmu.Unlock()
			ok = false
		}
		rmu.Lock()
		for id, n := range resets {
			if !opened[id] && n != expResets[id] {
				res.Violate("unexpected-reset-count", "after %s: %d resets for id %d, expected %d", desc(), n, id, expResets[id])
				ok = false
			}
		}
		rmu.Unlock()
		env.mu.Lock()
		u, s, p := env.unaryRuns, env.streamRuns, env.probeRuns
		env.mu.Unlock()
		if u < minU || u > maxU {
			res.Violate("unary-handler-invocations", "after %s: unary handler ran %d times, allowed %d..%d", desc(), u, minU, maxU)
			ok = false
		}
		if s > anyOpen {
			res.Violate("stream-handler-invocations", "after %s: stream handler ran %d times for %d opens", desc(), s, anyOpen)
			ok = false
		}
		if p != 1 {
			res.Violate("probe-handler-invocations", "after %s: probe handler ran %d times", desc(), p)
			ok = false
		}
	}
	// end the connection: Serve must return
	l.Kill()
	st3, snap3 := settle(tier, func() bool {
		select {
		case <-served:
			return true
		default:
			return false
		}
	})
	if st3 == "stuck" {
		res.ViolateD("serve-does-not-return-after-hostile-sequence", map[string]any{"goat_goroutines": goatParked(snap3)}, "after %s and the end of the connection Serve does not return", desc())
		ok = false
	}
	cancel()
	<-fed
	return ok
}

func c12Desc(syms []int) string {
	var parts []string
	for _, s := range syms {
		parts = append(parts, fmt.Sprintf("%s#%d", c12Shapes[s%c12NShapes], 1+s/c12NShapes))
	}
	return "[" + strings.Join(parts, ", ") + "]"
}

// hasBodyForUnknown: the sequence contains at least two envelopes that are owed a reset.
func hasBodyForUnknown(syms []int) bool {
	n := 0
	for _, s := range syms {
		switch c12Shapes[s%c12NShapes] {
		case "body", "bad-body", "empty-body", "body+trailer", "open-bad-bin-md":
			n++
		}
	}
	return n >= 2
}

// c12TwoSources: a peer that puts envelopes with two different source names on one connection.
// Streams are known by their identifier: a body for an identifier nobody opened is owed its reset
// whatever name it carries, and nothing of it reaches the handler of another stream - also when
// name and identifier of the two, written one after the other, read the same ("c0"+"11" / "c01"+"1").
func c12TwoSources(tier string, variant int, res *core.Result) {
	b := bed.New(bed.Opts{Cap: variant % 2, Serialise: variant%2 == 0})
	var mu sync.Mutex
	runs := 0
	var recvd [][]byte
	b.Impl.DefS = func(t, k string, ss grpc.ServerStream) error {
		mu.Lock()
		runs++
		mu.Unlock()
		for {
			var m svc.BV
			if err := ss.RecvMsg(&m); err != nil {
				return nil
			}
			mu.Lock()
			recvd = append(recvd, append([]byte{}, m.Value...))
			mu.Unlock()
		}
	}
	own, _ := proto.Marshal(&svc.BV{Value: []byte("own")})
	foreign, _ := proto.Marshal(&svc.BV{Value: []byte("foreign")})
	srcA, idA, srcB, idB := "c0", uint64(11), "c01", uint64(1)
	if variant >= 2 {
		srcA, idA, srcB, idB = "c1", uint64(12), "c11", uint64(2)
	}
	hd := func(src string) *goatorepo.RequestHeader {
		return &goatorepo.RequestHeader{Method: svc.MBidi, Source: src, Destination: "srv"}
	}
	seq := []*wire.Rpc{
		{Id: idA, Header: hd(srcA)},
		{Id: idB, Header: hd(srcB), Body: &goatorepo.Body{Data: foreign}},
		{Id: idA, Header: hd(srcA), Body: &goatorepo.Body{Data: own}},
		{Id: idA, Header: hd(srcA), Status: &goatorepo.ResponseStatus{Code: 0, Message: "OK"}, Trailer: &goatorepo.Trailer{}},
	}
	for _, e := range seq {
		done := make(chan error, 1)
		go func() { done <- b.Links[0].A.Write(context.Background(), e) }()
		settle(tier, func() bool { return len(done) > 0 })
	}
	quiet(tier)
	resets, trailers := 0, 0
	for _, e := range b.Links[0].Tap.Log() {
		if e.Dir != 1 {
			continue
		}
		if e.Rpc.GetId() == idB && e.Rpc.GetReset_() != nil {
			resets++
		}
		if e.Rpc.GetId() == idA && e.Rpc.GetTrailer() != nil && e.Rpc.GetReset_() == nil {
			trailers++
		}
	}
	mu.Lock()
	what := fmt.Sprintf("[open %s#%d, body %s#%d, body %s#%d, half-close %s#%d]", srcA, idA, srcB, idB, srcA, idA, srcA, idA)
	if resets != 1 {
		res.Violate("missing-reset-or-unary-invocation", "after %s: %d resets for the never-opened id %d (want 1)", what, resets, idB)
	}
	if runs != 1 || len(recvd) != 1 || string(recvd[0]) != "own" {
		res.Violate("stream-handler-got-foreign-envelope", "after %s: %d handler runs, the handler of #%d received %q (want one run, [\"own\"])", what, runs, idA, recvd)
	}
	if trailers != 1 {
		res.Violate("stream-not-completed", "after %s: %d trailers for #%d (want 1)", what, trailers, idA)
	}
	mu.Unlock()
	g, err := svc.Invoke(context.Background(), b.Conns[0], "probe", []byte("probe"))
	if err != nil || string(g) != "probe" {
		res.Violate("probe-answered-wrongly", "after %s a probe call got %q err=%v", what, g, err)
	}
	res.Stat("sequences_two-sources", 1)
	b.Close()
	bed.Hygiene(watchdog(tier))
	bed.ResetRecent()
}

func c12Run(tier string, seed int64, idx int) *core.Result {
	c := c12List(tier)[idx]
	r := rng(seed, idx, "c12")
	res := &core.Result{Verdict: core.Held, Sample: c}
	// one P is ~7x faster for these tiny scenarios (no cross-P wakeups); every 8th batch
	// runs on 4 Ps for schedule diversity
	if idx%8 == 7 {
		setGMP(4)
	} else {
		setGMP(1)
	}
	h := bed.NewHooks()
	h.Install()
	var env *c12Env
	evals := int64(0)
	sampled := false
	runSyms := func(syms []int) bool {
		seq := make([]*wire.Rpc, len(syms))
		for i, s := range syms {
			seq[i] = c12Envelope(s, i)
		}
		evals++
		core.Cursor(c12Desc(syms))
		if !sampled {
			sampled = true
			res.Sample = map[string]any{"case": c, "first_sequence": c12Desc(syms)}
		}
		return c12One(tier, env, seq, syms, res, func() string { return c12Desc(syms) })
	}
	switch c.Family {
	case "enum":
		for k := c.From; k < c.To; k++ {
			syms := make([]int, c.Len)
			v := k
			for i := c.Len - 1; i >= 0; i-- {
				syms[i] = int(v % c12NSym)
				v /= c12NSym
			}
			if !runSyms(syms) && len(res.Violations) > 20 {
				break
			}
		}
		res.DistinctNT = evals
	case "random5":
		for i := 0; i < c.N; i++ {
			syms := make([]int, 5)
			for j := range syms {
				syms[j] = r.Intn(c12NSym)
			}
			runSyms(syms)
		}
	case "random":
		for i := 0; i < c.N; i++ {
			syms := make([]int, 5+r.Intn(36))
			for j := range syms {
				syms[j] = r.Intn(c12NSym)
			}
			runSyms(syms)
		}
	case "half-duplex":
		slowDone := false
		// symbols that never open a stream (so that no live handler can block the read loop by design)
		// and at most 6 unary-type requests (8 workers; their replies wait for the peer to read)
		var pool, unaryish []int
		for sym := 0; sym < c12NSym; sym++ {
			switch c12Shapes[sym%c12NShapes] {
			case "open-bidi", "open-client", "reset-unknown-type", "open-id0":
			case "unary", "unary-no-body", "unary-bad-body", "unary-with-trailer", "unary-tiny-timeout", "unary-bad-timeout", "unary-bad-bin-md":
				unaryish = append(unaryish, sym)
			default:
				pool = append(pool, sym)
			}
		}
		var owed []int // symbols that are owed a reset when their id was never opened
		for _, sym := range pool {
			switch c12Shapes[sym%c12NShapes] {
			case "body", "bad-body", "empty-body", "body+trailer", "open-bad-bin-md":
				owed = append(owed, sym)
			}
		}
		for i := 0; i < c.N; i++ {
			n := 2 + r.Intn(11)
			burst := i%5 == 4 // a burst of 20..40 envelopes, nearly all of them owed a reset
			if burst {
				n = 20 + r.Intn(21)
				res.Stat("half_duplex_reset_bursts", 1)
			}
			syms := make([]int, 0, n)
			nu := 0
			for j := 0; j < n; j++ {
				if burst && r.Intn(8) != 0 {
					syms = append(syms, owed[r.Intn(len(owed))])
				} else if nu < 6 && r.Intn(4) == 0 {
					syms = append(syms, unaryish[r.Intn(len(unaryish))])
					nu++
				} else {
					syms = append(syms, pool[r.Intn(len(pool))])
				}
			}
			seq := make([]*wire.Rpc, len(syms))
			for k, sy := range syms {
				seq[k] = c12Envelope(sy, k)
			}
			evals++
			core.Cursor("half-duplex " + c12Desc(syms))
			sy := syms
			c12SlowReader = !slowDone && hasBodyForUnknown(sy) // once per case
			slowDone = slowDone || c12SlowReader
			c12OneMode(tier, seq, sy, res, func() string { return "half-duplex " + c12Desc(sy) }, true)
			c12SlowReader = false
		}
	case "two-sources":
		c12TwoSources(tier, c.N, res)
		evals++
	case "mutate":
		// field-level mutations of a valid conversation: a unary call, a bidi stream with two bodies and half-close
		for i := 0; i < c.N; i++ {
			conv := []*wire.Rpc{c12Envelope(7, 0), c12Envelope(13+c12NShapes, 1), c12Envelope(15+c12NShapes, 2), c12Envelope(15+c12NShapes, 3), c12Envelope(17+c12NShapes, 4)}
			nm := 1 + r.Intn(3)
			var what []string
			for j := 0; j < nm; j++ {
				what = append(what, c12Mutate(r, conv[r.Intn(len(conv))]))
			}
			evals++
			d := "mutated conversation {" + strings.Join(what, "; ") + "}"
			core.Cursor(d)
			c12One(tier, env, conv, nil, res, func() string { return d })
		}
	}
	res.Evals = evals
	res.Stat("sequences", evals)
	res.Stat("sequences_"+c.Family, evals)
	res.Sig = fmt.Sprintf("%+v/%d", c, idx)
	res.NonTrivial = c.Family != "enum"
	bed.Uninstall()
	h.Fold(res)
	if left, final := bed.Hygiene(watchdog(tier)); !final || len(left) > 0 {
		res.Retire = true
	}
	return res
}

func c12Mutate(r *rand.Rand, e *wire.Rpc) string {
	switch r.Intn(12) {
	case 0:
		e.Id = []uint64{0, 1, 2, 3, 1 << 63, ^uint64(0)}[r.Intn(6)]
		return fmt.Sprintf("id=%d", e.Id)
	case 1:
		e.Header = nil
		return "header=nil"
	case 2:
		if e.Header != nil {
			e.Header.Method = []string{"", "/", "//", "/verif.Svc/", "verif.Svc/Unary", "/verif.Svc/Unary/extra", "/verif.Svc/Bidi", "/verif.Svc/Unary", "\x00", strings.Repeat("a/", 50)}[r.Intn(10)]
			return "method=" + e.Header.Method
		}
	case 3:
		if e.Header != nil {
			e.Header.Destination = []string{"", "SRV", "srv ", "other"}[r.Intn(4)]
			return "destination=" + e.Header.Destination
		}
	case 4:
		if e.Header != nil {
			e.Header.Source = []string{"", "c1", "srv"}[r.Intn(3)]
			return "source=" + e.Header.Source
		}
	case 5:
		if e.Header != nil {
			e.Header.Headers = append(e.Header.Headers, &goatorepo.KeyValue{Key: []string{"x-bin", "X-BIN", "grpc-timeout", "", ":path", "a b"}[r.Intn(6)], Value: []string{"%%%", "", "1n", "99999999H", "-1S", "\x00\xff"}[r.Intn(6)]})
			return "extra header"
		}
	case 6:
		e.Body = nil
		return "body=nil"
	case 7:
		e.Body = &goatorepo.Body{Data: []byte{0x0a, 0xff, 0xff, 0xff, 0xff, 0x0f}}
		return "body=garbage"
	case 8:
		e.Trailer = &goatorepo.Trailer{Metadata: []*goatorepo.KeyValue{{Key: "t-bin", Value: "%%"}}}
		return "trailer added"
	case 9:
		e.Status = &goatorepo.ResponseStatus{Code: int32(r.Intn(20) - 2), Message: "m"}
		return "status added"
	case 10:
		e.Reset_ = &goatorepo.Reset{Type: []string{"RST_STREAM", "", "rst_stream"}[r.Intn(3)]}
		return "reset added"
	case 11:
		if e.Header != nil {
			e.Header.ProxyRecord = []string{"p1", "p2"}
			e.Header.ProxyNext = []string{"q"}
			return "proxy fields"
		}
	}
	return "none"
}

func init() {
	core.Register(&core.Prop{
		ID:         "C12",
		Level:      "exploration",
		Rule:       "alphabet = 29 envelope shapes x 2 stream ids (58 symbols); ALL sequences of length <= 3 (quick: 198 534) / <= 4 (thorough: 11 515 030) are fed by a scripted peer to a fresh server connection, each followed by a valid probe request that must be answered correctly, a reference-dispatcher check (unary handler invocation count in the allowed range, no handler for wrong destination / malformed requests, one reset per body addressed to a never-opened id), and the end of the connection after which Serve must return; plus sequences of 2..12 envelopes (every fifth: a burst of 20..40, nearly all bodies for never-opened ids, each owed its reset) that open no stream fed by a half-duplex peer (it writes the whole batch and the probe before reading anything; now and then it waits another 1.2 s of real time before it reads), four sequences in which a second source name appears on the connection (a body for a never-opened id under a name that, written in front of the id, reads like an open stream's: reset owed, nothing reaches the other stream's handler), seeded field-level mutations of a valid conversation and random sequences of length 5..40 (and 10^5 of length 5 in thorough). distinct_nontrivial = enumerated sequences (all distinct by construction) + distinct other batches.",
		Plan:       func(tier string, seed int64) int { return len(c12List(tier)) },
		Run:        c12Run,
		Exhaustive: func(string) bool { return true },
		RequiredStats: func(string) []string {
			return []string{"sequences_enum", "sequences_mutate", "sequences_random", "sequences_half-duplex", "sequences_two-sources"}
		},
		Assumptions: []string{"exhaustive = every sequence over the 50-symbol alphabet up to the stated length; schedules within a sequence are not enumerated", "stream handlers alternate between returning at once and echoing until end of stream"},
		Budget:      nil,
	})
}

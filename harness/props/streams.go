package props

import (
	"context"
	"errors"
	"fmt"
	"io"
	"sync"
	"time"

	"google.golang.org/grpc"
	"google.golang.org/grpc/metadata"

	"goatverif/svc"
	"goatverif/wire"
)

var errRecvNeverEnds = errors.New("verif: receive loop still returning messages after 20000 iterations")

// A small interpreter for client and handler stream programs, recording what
// each side observes at the API boundary.

type Op struct {
	Op   string      `json:"op"`             // recv | recvAll | send | closeSend | setHeader | sendHeader | setTrailer | header | trailer | waitCtx | gate | cancel | fire | ret | arm
	Size int         `json:"size,omitempty"` // send
	N    int         `json:"n,omitempty"`    // repeat count for send / recv
	MD   metadata.MD `json:"md,omitempty"`
	Gate string      `json:"gate,omitempty"`
	Err  error       `json:"-"`
	ErrS string      `json:"err,omitempty"`
}

type Ev struct {
	Seq  uint64
	Op   string
	Data []byte
	Err  error
	MD   metadata.MD
}

// SideRec is what one side of one stream observed.
type SideRec struct {
	mu          sync.Mutex
	Evs         []Ev
	Sent        [][]byte // successfully sent messages
	Recvd       [][]byte
	RecvEnd     error // the error that ended receiving (io.EOF, status, ...), nil if none yet
	SendErr     error // first non-nil error of a send / closeSend
	Ret         error // handler return value
	Header      metadata.MD
	HdrErr      error
	Trailer     metadata.MD
	Done        bool
	InMD        metadata.MD // handler: incoming metadata
	CtxErrAtEnd error
}

func (s *SideRec) add(e Ev) {
	e.Seq = wire.Tick()
	s.mu.Lock()
	s.Evs = append(s.Evs, e)
	s.mu.Unlock()
}

type Gates struct {
	mu  sync.Mutex
	all bool // OpenAll was called: every gate, also one created later, is open
	m   map[string]chan struct{}
	at  map[string]chan struct{}
}

func NewGates() *Gates { return &Gates{m: map[string]chan struct{}{}, at: map[string]chan struct{}{}} }

func (g *Gates) ch(name string) (chan struct{}, chan struct{}) {
	g.mu.Lock()
	defer g.mu.Unlock()
	if g.m[name] == nil {
		g.m[name] = make(chan struct{})
		g.at[name] = make(chan struct{})
		if g.all {
			close(g.m[name])
		}
	}
	return g.m[name], g.at[name]
}

// Wait parks until Open(name); it announces its arrival first.
func (g *Gates) Wait(name string) {
	c, at := g.ch(name)
	g.mu.Lock()
	select {
	case <-at:
	default:
		close(at)
	}
	g.mu.Unlock()
	<-c
}

func (g *Gates) Open(name string) {
	c, _ := g.ch(name)
	g.mu.Lock()
	select {
	case <-c:
	default:
		close(c)
	}
	g.mu.Unlock()
}

func (g *Gates) OpenAll() {
	g.mu.Lock()
	g.all = true
	names := make([]string, 0, len(g.m))
	for n := range g.m {
		names = append(names, n)
	}
	g.mu.Unlock()
	for _, n := range names {
		g.Open(n)
	}
}

// Reached reports whether some goroutine has arrived at the gate.
func (g *Gates) Reached(name string) bool {
	_, at := g.ch(name)
	select {
	case <-at:
		return true
	default:
		return false
	}
}

// msgBytes builds a unique message: 16-byte prefix (tag hash, dir, seq) + PRNG bytes.
func msgBytes(tag string, dir byte, seq int, size int) []byte {
	if size == 0 {
		return []byte{}
	}
	b := make([]byte, size)
	x := uint64(1469598103934665603)
	for _, c := range []byte(tag) {
		x = (x ^ uint64(c)) * 1099511628211
	}
	x ^= uint64(dir)<<32 | uint64(seq+1)
	for i := range b {
		x ^= x << 13
		x ^= x >> 7
		x ^= x << 17
		b[i] = byte(x >> 24)
	}
	hdr := fmt.Sprintf("%-10.10s%c%05d", tag, dir, seq)
	copy(b, hdr)
	return b
}

// runHandlerProg interprets ops on a server stream.
func runHandlerProg(ss grpc.ServerStream, tag string, ops []Op, rec *SideRec, gates *Gates) (ret error) {
	md, _ := metadata.FromIncomingContext(ss.Context())
	rec.mu.Lock()
	rec.InMD = md.Copy()
	rec.mu.Unlock()
	defer func() {
		rec.mu.Lock()
		rec.Ret = ret
		rec.Done = true
		rec.CtxErrAtEnd = ss.Context().Err()
		rec.mu.Unlock()
		rec.add(Ev{Op: "ret", Err: ret})
	}()
	sendSeq := 0
	var bg chan error
	for _, op := range ops {
		n := op.N
		if n == 0 {
			n = 1
		}
		switch op.Op {
		case "recv":
			for i := 0; i < n; i++ {
				m := svc.BV{Value: []byte("stale content of a reused message")} // a handler may reuse its receive object
				err := ss.RecvMsg(&m)
				if err != nil {
					m.Value = nil
				}
				rec.add(Ev{Op: "recv", Data: m.Value, Err: err})
				if err != nil {
					rec.mu.Lock()
					rec.RecvEnd = err
					rec.mu.Unlock()
					if err == io.EOF {
						break
					}
					return err
				}
				rec.mu.Lock()
				rec.Recvd = append(rec.Recvd, append([]byte{}, m.Value...))
				rec.mu.Unlock()
			}
		case "recvAll":
			for {
				m := svc.BV{Value: []byte("stale content of a reused message")} // a handler may reuse its receive object
				err := ss.RecvMsg(&m)
				if err != nil {
					m.Value = nil
				}
				rec.add(Ev{Op: "recv", Data: m.Value, Err: err})
				if err != nil {
					rec.mu.Lock()
					rec.RecvEnd = err
					rec.mu.Unlock()
					if err == io.EOF {
						break
					}
					return err
				}
				rec.mu.Lock()
				rec.Recvd = append(rec.Recvd, append([]byte{}, m.Value...))
				rec.mu.Unlock()
			}
		case "send":
			for i := 0; i < n; i++ {
				b := msgBytes(tag, 'S', sendSeq, op.Size)
				sendSeq++
				err := ss.SendMsg(&svc.BV{Value: b})
				rec.add(Ev{Op: "send", Data: b, Err: err})
				if err != nil {
					rec.mu.Lock()
					if rec.SendErr == nil {
						rec.SendErr = err
					}
					rec.mu.Unlock()
					return err
				}
				rec.mu.Lock()
				rec.Sent = append(rec.Sent, b)
				rec.mu.Unlock()
			}
		case "echo": // recv until EOF, echoing each message
			for {
				m := svc.BV{Value: []byte("stale content of a reused message")} // a handler may reuse its receive object
				err := ss.RecvMsg(&m)
				if err != nil {
					m.Value = nil
				}
				rec.add(Ev{Op: "recv", Data: m.Value, Err: err})
				if err != nil {
					rec.mu.Lock()
					rec.RecvEnd = err
					rec.mu.Unlock()
					if err == io.EOF {
						break
					}
					return err
				}
				v := append([]byte{}, m.Value...)
				rec.mu.Lock()
				rec.Recvd = append(rec.Recvd, v)
				rec.mu.Unlock()
				if err := ss.SendMsg(&svc.BV{Value: v}); err != nil {
					rec.add(Ev{Op: "send", Data: v, Err: err})
					return err
				}
				rec.add(Ev{Op: "send", Data: v})
				rec.mu.Lock()
				rec.Sent = append(rec.Sent, v)
				rec.mu.Unlock()
			}
		case "setHeader":
			err := ss.SetHeader(op.MD)
			rec.add(Ev{Op: "setHeader", MD: op.MD, Err: err})
		case "sendHeader":
			err := ss.SendHeader(op.MD)
			rec.add(Ev{Op: "sendHeader", MD: op.MD, Err: err})
		case "setTrailer":
			ss.SetTrailer(op.MD)
			rec.add(Ev{Op: "setTrailer", MD: op.MD})
		case "waitCtx":
			<-ss.Context().Done()
			rec.add(Ev{Op: "ctxDone", Err: ss.Context().Err()})
		case "gate":
			gates.Wait(op.Gate)
		case "sleepReal":
			// a handler that is slow, not dead: N milliseconds of real time
			time.Sleep(time.Duration(op.N) * time.Millisecond)
		case "spawnRecvAll":
			// a full-duplex handler: a second goroutine receives until the end of the caller's
			// messages while this one goes on (gRPC allows one sender and one receiver at a time)
			bg = make(chan error, 1)
			go func() {
				for {
					m := svc.BV{Value: []byte("stale content of a reused message")}
					err := ss.RecvMsg(&m)
					if err != nil {
						m.Value = nil
					}
					rec.add(Ev{Op: "recv", Data: m.Value, Err: err})
					if err != nil {
						rec.mu.Lock()
						rec.RecvEnd = err
						rec.mu.Unlock()
						if err == io.EOF {
							err = nil
						}
						bg <- err
						return
					}
					rec.mu.Lock()
					rec.Recvd = append(rec.Recvd, append([]byte{}, m.Value...))
					rec.mu.Unlock()
				}
			}()
		case "join":
			if bg != nil {
				if err := <-bg; err != nil {
					return err
				}
			}
		case "ret":
			return op.Err
		}
	}
	return nil
}

// clientStreamRun drives one client stream with a sender and a receiver op
// list (the receiver list may be empty: then everything runs in one goroutine).
type ClientRun struct {
	Ctx     context.Context
	Cancel  func()
	Fire    func()
	Stream  *svc.Stream
	OpenErr error
	Rec     *SideRec
	wg      sync.WaitGroup
	ArmRecv func(ctx context.Context) // called right before a recv flagged "arm"
	ArmSend func(ctx context.Context)
}

func (cr *ClientRun) interp(ops []Op, tag string, gates *Gates, sendSeq *int) {
	rec := cr.Rec
	s := cr.Stream
	for _, op := range ops {
		n := op.N
		if n == 0 {
			n = 1
		}
		switch op.Op {
		case "send":
			for i := 0; i < n; i++ {
				b := msgBytes(tag, 'C', *sendSeq, op.Size)
				*sendSeq++
				err := s.Send(b)
				rec.add(Ev{Op: "send", Data: b, Err: err})
				if err != nil {
					rec.mu.Lock()
					if rec.SendErr == nil && err != io.EOF {
						rec.SendErr = err
					}
					rec.mu.Unlock()
					if err != io.EOF {
						return
					}
					continue
				}
				rec.mu.Lock()
				rec.Sent = append(rec.Sent, b)
				rec.mu.Unlock()
			}
		case "armSend":
			if cr.ArmSend != nil {
				cr.ArmSend(s.Context())
			}
		case "closeSend":
			err := s.CloseSend()
			rec.add(Ev{Op: "closeSend", Err: err})
			if err != nil {
				rec.mu.Lock()
				if rec.SendErr == nil {
					// whatever its value (a transport may have failed with io.EOF), an error from
					// CloseSend is a failure reported to the caller, not an end-of-stream signal
					rec.SendErr = fmt.Errorf("CloseSend failed: %w", err)
				}
				rec.mu.Unlock()
				return
			}
		case "recv":
			for i := 0; i < n; i++ {
				b, err := s.Recv()
				rec.add(Ev{Op: "recv", Data: b, Err: err})
				if err != nil {
					rec.mu.Lock()
					rec.RecvEnd = err
					rec.mu.Unlock()
					return
				}
				rec.mu.Lock()
				rec.Recvd = append(rec.Recvd, b)
				rec.mu.Unlock()
			}
		case "arm":
			if cr.ArmRecv != nil {
				cr.ArmRecv(s.Context())
			}
		case "recvAll":
			for guard := 0; ; guard++ {
				b, err := s.Recv()
				if guard > 20000 && err == nil {
					err = errRecvNeverEnds // a receive loop that keeps "succeeding" without data ever ending
				}
				rec.add(Ev{Op: "recv", Data: b, Err: err})
				if err != nil {
					rec.mu.Lock()
					rec.RecvEnd = err
					rec.mu.Unlock()
					break
				}
				rec.mu.Lock()
				rec.Recvd = append(rec.Recvd, b)
				rec.mu.Unlock()
			}
		case "header":
			md, err := s.Header()
			rec.add(Ev{Op: "header", MD: md, Err: err})
			rec.mu.Lock()
			rec.Header, rec.HdrErr = md, err
			rec.mu.Unlock()
		case "trailer":
			md := s.Trailer()
			rec.add(Ev{Op: "trailer", MD: md})
			rec.mu.Lock()
			rec.Trailer = md
			rec.mu.Unlock()
		case "gate":
			gates.Wait(op.Gate)
		case "openGate":
			gates.Open(op.Gate)
		case "cancel":
			cr.Cancel()
		case "fire":
			if cr.Fire != nil {
				cr.Fire()
			}
		}
	}
}

// StartClient opens the stream and runs the programs; Wait() blocks until both finished.
func StartClient(ctx context.Context, cancel func(), fire func(), cc grpc.ClientConnInterface, kind, tag string, serverReq []byte,
	sender, receiver []Op, gates *Gates, armRecv, armSend func(context.Context)) *ClientRun {
	cr := &ClientRun{Ctx: ctx, Cancel: cancel, Fire: fire, Rec: &SideRec{}, ArmRecv: armRecv, ArmSend: armSend}
	cr.wg.Add(1)
	go func() {
		defer cr.wg.Done()
		s, err := svc.Open(ctx, cc, kind, tag, serverReq)
		cr.Stream = s
		cr.Rec.add(Ev{Op: "open", Err: err})
		if err != nil {
			cr.OpenErr = err
			cr.Rec.mu.Lock()
			// an error from opening the stream is a failure whatever its value (a transport may have
			// failed with io.EOF, which only RecvMsg uses to signal a successful end)
			cr.Rec.SendErr = fmt.Errorf("open failed: %w", err)
			cr.Rec.Done = true
			cr.Rec.mu.Unlock()
			if s == nil {
				return
			}
			// generated server-stream stubs return the error to the caller; nothing more happens
			return
		}
		seq := 0
		if len(receiver) > 0 {
			cr.wg.Add(1)
			go func() {
				defer cr.wg.Done()
				seq2 := 100000
				cr.interp(receiver, tag, gates, &seq2)
			}()
		}
		cr.interp(sender, tag, gates, &seq)
	}()
	go func() {
		cr.wg.Wait()
		cr.Rec.mu.Lock()
		cr.Rec.Done = true
		cr.Rec.mu.Unlock()
	}()
	return cr
}

func (cr *ClientRun) IsDone() bool {
	cr.Rec.mu.Lock()
	defer cr.Rec.mu.Unlock()
	return cr.Rec.Done
}

// callerOutcome is what a user of generated stubs observes for the call:
// the first non-nil, non-EOF error from open/Send/CloseSend, else the error
// that ended receiving.
func callerOutcome(rec *SideRec) error {
	rec.mu.Lock()
	defer rec.mu.Unlock()
	if rec.SendErr != nil {
		return rec.SendErr
	}
	return rec.RecvEnd
}

func seqEqual(a, b [][]byte) (bool, string) {
	if len(a) != len(b) {
		return false, fmt.Sprintf("length %d vs %d", len(a), len(b))
	}
	for i := range a {
		if string(a[i]) != string(b[i]) {
			return false, fmt.Sprintf("element %d differs (%d vs %d bytes)", i, len(a[i]), len(b[i]))
		}
	}
	return true, ""
}

func isPrefix(p, full [][]byte) bool {
	if len(p) > len(full) {
		return false
	}
	for i := range p {
		if string(p[i]) != string(full[i]) {
			return false
		}
	}
	return true
}

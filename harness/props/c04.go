package props

import (
	"context"
	"encoding/base64"
	"fmt"
	"math/rand"
	"sort"
	"strings"
	"sync"
	"sync/atomic"
	"time"

	goat "github.com/avos-io/goat"
	"google.golang.org/grpc"
	"google.golang.org/grpc/codes"
	"google.golang.org/grpc/metadata"
	"google.golang.org/grpc/stats"
	"google.golang.org/grpc/status"
	"google.golang.org/protobuf/types/known/wrapperspb"

	"goatverif/bed"
	"goatverif/core"
	"goatverif/svc"
)

// C04: request metadata, response headers and trailers arrive intact.

const c04KeyAlpha = "0123456789abcdefghijklmnopqrstuvwxyz_.-"

func c04GenMD(r *rand.Rand, maxKeys int, used map[string]bool) metadata.MD {
	md := metadata.MD{}
	n := r.Intn(maxKeys + 1)
	for len(md) < n {
		kl := 1 + r.Intn(12)
		var sb strings.Builder
		for i := 0; i < kl; i++ {
			ch := c04KeyAlpha[r.Intn(len(c04KeyAlpha))]
			if ch >= 'a' && ch <= 'z' && r.Intn(3) == 0 {
				ch = ch - 'a' + 'A'
			}
			sb.WriteByte(ch)
		}
		k := sb.String()
		bin := r.Intn(3) == 0
		if bin {
			k += []string{"-bin", "-BIN", "-Bin"}[r.Intn(3)]
		}
		lk := strings.ToLower(k)
		if used[lk] || strings.HasPrefix(lk, "grpc-") || lk == svc.TagKey || strings.HasSuffix(lk, "-bin") != bin {
			continue
		}
		used[lk] = true
		nv := 1 + r.Intn(4)
		var vs []string
		for j := 0; j < nv; j++ {
			if bin {
				l := []int{0, 1, 2, 3, 16, 100}[r.Intn(6)]
				b := make([]byte, l)
				r.Read(b)
				if l > 2 && r.Intn(2) == 0 {
					b[0], b[1], b[2] = 0x00, 0xff, 0xfe
				}
				vs = append(vs, string(b))
			} else {
				l := r.Intn(20)
				b := make([]byte, l)
				for x := range b {
					b[x] = byte(0x20 + r.Intn(0x5f))
				}
				vs = append(vs, string(b))
			}
		}
		md[k] = vs
	}
	return md
}

// norm is the independent normaliser: lower-case keys, per-key append order.
func norm(mds ...metadata.MD) metadata.MD {
	out := metadata.MD{}
	for _, md := range mds {
		keys := make([]string, 0, len(md))
		for k := range md {
			keys = append(keys, k)
		}
		sort.Strings(keys)
		for _, k := range keys {
			lk := strings.ToLower(k)
			out[lk] = append(out[lk], md[k]...)
		}
	}
	return out
}

func mdDiff(want, got metadata.MD, ignore ...string) string {
	ign := map[string]bool{}
	for _, k := range ignore {
		ign[k] = true
	}
	for k, wv := range want {
		gv, ok := got[k]
		if !ok {
			return fmt.Sprintf("key %q missing", k)
		}
		if len(gv) != len(wv) {
			return fmt.Sprintf("key %q has %d values, want %d", k, len(gv), len(wv))
		}
		for i := range wv {
			if gv[i] != wv[i] {
				return fmt.Sprintf("key %q value %d differs: %q vs %q", k, i, trunc(gv[i]), trunc(wv[i]))
			}
		}
	}
	for k := range got {
		if _, ok := want[k]; !ok && !ign[k] {
			if k != strings.ToLower(k) {
				return fmt.Sprintf("key %q is not lower-cased", k)
			}
			return fmt.Sprintf("unexpected key %q", k)
		}
	}
	return ""
}

type c04RPC struct {
	Kind       string `json:"kind"`
	HeaderWay  string `json:"header_way"` // set-only | send-header | with-first-message | with-trailer
	Fail       bool   `json:"handler_fails"`
	ReqKeys    int    `json:"request_keys"`
	ViaIcpt    bool   `json:"client_interceptor_adds"`
	NonTrivial bool   `json:"-"`
}

type c04Stats struct {
	mu  sync.Mutex
	hdr map[string]metadata.MD // by tag: unary response headers seen by the client stats handler
}

type c04TagKey struct{}

func (s *c04Stats) TagRPC(ctx context.Context, _ *stats.RPCTagInfo) context.Context {
	md, _ := metadata.FromOutgoingContext(ctx)
	if v := md.Get(svc.TagKey); len(v) > 0 {
		return context.WithValue(ctx, c04TagKey{}, v[0])
	}
	return ctx
}
func (s *c04Stats) HandleRPC(ctx context.Context, e stats.RPCStats) {
	if ih, ok := e.(*stats.InHeader); ok && ih.Client {
		if tag, _ := ctx.Value(c04TagKey{}).(string); tag != "" {
			s.mu.Lock()
			s.hdr[tag] = ih.Header.Copy()
			s.mu.Unlock()
		}
	}
}
func (s *c04Stats) TagConn(ctx context.Context, _ *stats.ConnTagInfo) context.Context { return ctx }
func (s *c04Stats) HandleConn(context.Context, stats.ConnStats)                       {}

func c04Run(tier string, seed int64, idx int) *core.Result {
	r := rng(seed, idx, "c04")
	res := &core.Result{Verdict: core.Held, Sig: fmt.Sprintf("c04/%d/%d", seed, idx)}
	h := bed.NewHooks()
	h.Install()
	cst := &c04Stats{hdr: map[string]metadata.MD{}}
	icptMD := map[string]metadata.MD{}
	var imu sync.Mutex
	addFromIcpt := func(ctx context.Context) context.Context {
		md, _ := metadata.FromOutgoingContext(ctx)
		if v := md.Get(svc.TagKey); len(v) > 0 {
			imu.Lock()
			extra := icptMD[v[0]]
			imu.Unlock()
			for k, vs := range extra {
				for _, x := range vs {
					ctx = metadata.AppendToOutgoingContext(ctx, k, x)
				}
			}
		}
		return ctx
	}
	b := bed.New(bed.Opts{Serialise: idx%2 == 0, Cap: idx % 3, DialOpts: []goat.DialOption{
		goat.WithStatsHandler(cst),
		goat.WithUnaryInterceptor(func(ctx context.Context, method string, req, reply any, cc *grpc.ClientConn, invoker grpc.UnaryInvoker, opts ...grpc.CallOption) error {
			return invoker(addFromIcpt(ctx), method, req, reply, cc, opts...)
		}),
		goat.WithStreamInterceptor(func(ctx context.Context, desc *grpc.StreamDesc, cc *grpc.ClientConn, method string, streamer grpc.Streamer, opts ...grpc.CallOption) (grpc.ClientStream, error) {
			return streamer(addFromIcpt(ctx), desc, cc, method, opts...)
		}),
	}})
	cc := b.Conns[0]
	n := 20
	var samples []any
	for i := 0; i < n && len(res.Violations) < 5; i++ {
		tag := fmt.Sprintf("md%d-%d", idx, i)
		rp := c04RPC{Kind: []string{"unary", "client", "server", "bidi"}[i%4], HeaderWay: []string{"set-only", "send-header", "with-first-message", "with-trailer", "with-trailer-after-failed-send"}[r.Intn(5)], Fail: r.Intn(4) == 0, ViaIcpt: r.Intn(2) == 0}
		used := map[string]bool{}
		reqCtxMD := c04GenMD(r, 16, used)
		var reqIcptMD metadata.MD
		if rp.ViaIcpt {
			reqIcptMD = c04GenMD(r, 4, used)
			// an interceptor may also append to a key already present
			for k := range reqCtxMD {
				if r.Intn(4) == 0 && !strings.HasSuffix(strings.ToLower(k), "-bin") {
					reqIcptMD[strings.ToLower(k)] = []string{"appended-by-interceptor"}
				}
			}
			imu.Lock()
			icptMD[tag] = reqIcptMD
			imu.Unlock()
		}
		rp.ReqKeys = len(reqCtxMD) + len(reqIcptMD)
		usedH, usedT := map[string]bool{}, map[string]bool{}
		h1, h2 := c04GenMD(r, 8, usedH), c04GenMD(r, 4, usedH)
		// repeated SetHeader on the same key: values append in call order
		for k := range h1 {
			if r.Intn(3) == 0 {
				h2[k] = []string{"second-call"}
				if strings.HasSuffix(strings.ToLower(k), "-bin") {
					h2[k] = []string{"\x00second\xff"}
				}
			}
		}
		t1, t2 := c04GenMD(r, 8, usedT), c04GenMD(r, 4, usedT)
		for k := range t1 {
			if r.Intn(3) == 0 {
				t2[k] = []string{"second-trailer"}
				if strings.HasSuffix(strings.ToLower(k), "-bin") {
					t2[k] = []string{"\xfe\x00"}
				}
			}
		}
		wantReq := norm(reqCtxMD, reqIcptMD)
		wantHdr := norm(h1, h2)
		wantTrl := norm(t1, t2)
		herr := error(nil)
		if rp.Fail {
			herr = status.Error(codes.DataLoss, "failing with metadata")
		}
		var gotReq metadata.MD
		var mu sync.Mutex
		done := make(chan struct{})
		var gotHdr, gotTrl metadata.MD
		var callErr error
		ctx := svc.WithTag(metadata.NewOutgoingContext(context.Background(), reqCtxMD.Copy()), tag)
		if i%2 == 1 {
			// every other call also carries a (far) deadline: the timeout header travels with the
			// metadata and must not disturb it
			var dcancel context.CancelFunc
			ctx, dcancel = context.WithTimeout(ctx, time.Duration(1+i)*time.Hour)
			defer dcancel()
			res.Stat("rpcs_with_deadline_and_metadata", 1)
		}
		if rp.Kind == "unary" {
			b.Impl.SetUnary(tag, func(ctx context.Context, t string, req []byte) ([]byte, error) {
				md, _ := metadata.FromIncomingContext(ctx)
				mu.Lock()
				gotReq = md.Copy()
				mu.Unlock()
				grpc.SetHeader(ctx, h1)
				if rp.HeaderWay == "send-header" {
					grpc.SendHeader(ctx, h2)
				} else {
					grpc.SetHeader(ctx, h2)
				}
				grpc.SetTrailer(ctx, t1)
				grpc.SetTrailer(ctx, t2)
				return req, herr
			})
			go func() {
				defer close(done)
				out := new(svc.BV)
				callErr = cc.Invoke(ctx, svc.MUnary, &svc.BV{Value: []byte("x")}, out)
			}()
		} else {
			b.Impl.SetStream(tag, func(t, k string, ss grpc.ServerStream) error {
				md, _ := metadata.FromIncomingContext(ss.Context())
				mu.Lock()
				gotReq = md.Copy()
				mu.Unlock()
				if k == "server" {
					var m svc.BV
					ss.RecvMsg(&m)
				}
				ss.SetHeader(h1)
				switch rp.HeaderWay {
				case "send-header":
					ss.SendHeader(h2)
					ss.SendMsg(&svc.BV{Value: []byte("m")})
				case "with-first-message":
					ss.SetHeader(h2)
					ss.SendMsg(&svc.BV{Value: []byte("m")})
					ss.SendMsg(&svc.BV{Value: []byte("m2")})
				case "set-only":
					grpc.SetHeader(ss.Context(), h2) // through the ServerTransportStream in the context
					ss.SendMsg(&svc.BV{Value: []byte("m")})
				case "with-trailer-after-failed-send":
					// the first SendMsg fails before anything is written (unmarshalable message):
					// the headers must still leave, with the final status
					ss.SetHeader(h2)
					if err := ss.SendMsg(&wrapperspb.StringValue{Value: "\xff\xfe invalid utf-8"}); err == nil {
						res.Violate("unmarshalable-message-sent", "SendMsg of a message with invalid UTF-8 succeeded")
					}
				default: // with-trailer: no message at all
					ss.SetHeader(h2)
				}
				ss.SetTrailer(t1)
				grpc.SetTrailer(ss.Context(), t2)
				if k != "server" {
					for {
						var m svc.BV
						if err := ss.RecvMsg(&m); err != nil {
							break
						}
					}
				}
				return herr
			})
			go func() {
				defer close(done)
				s, err := svc.Open(ctx, cc, rp.Kind, tag, []byte("q"))
				if err != nil {
					callErr = err
					return
				}
				if rp.Kind != "server" {
					s.Send([]byte("c1"))
					s.CloseSend()
				}
				gotHdr, _ = s.Header()
				for {
					if _, err := s.Recv(); err != nil {
						callErr = err
						break
					}
				}
				gotTrl = s.Trailer()
			}()
		}
		st, snap := settle(tier, func() bool {
			select {
			case <-done:
				return true
			default:
				return false
			}
		})
		if st != "ok" {
			if st == "stuck" {
				res.ViolateD("call-never-returns", map[string]any{"goat_goroutines": goatParked(snap)}, "%s RPC with metadata never returned", rp.Kind)
			} else {
				res.Verdict, res.Note = core.Inconclusive, "watchdog"
			}
			break
		}
		_ = callErr
		mu.Lock()
		gr := gotReq
		mu.Unlock()
		where := fmt.Sprintf("%s RPC (headers %s, fail=%v)", rp.Kind, rp.HeaderWay, rp.Fail)
		if gr == nil {
			res.Violate("handler-not-invoked", "%s: handler was not invoked", where)
		} else if d := mdDiff(wantReq, gr, svc.TagKey, "grpc-timeout"); d != "" {
			res.Violate("request-metadata-altered/"+rp.Kind, "%s: request metadata at the handler: %s", where, d)
		}
		if rp.Kind == "unary" {
			cst.mu.Lock()
			gotHdr = cst.hdr[tag]
			cst.mu.Unlock()
			// trailers of a unary response: only visible on the wire
			for _, e := range b.Links[0].Tap.Log() {
				if e.Dir == 1 && e.Rpc.GetTrailer() != nil {
					isMine := false
					// match by id of the request with this tag
					for _, q := range b.Links[0].Tap.Log() {
						if q.Dir == 0 && q.Rpc.GetId() == e.Rpc.GetId() && kvHasTag(q.Rpc) == tag {
							isMine = true
						}
					}
					if isMine {
						gotTrl = metadata.MD{}
						for _, kv := range e.Rpc.GetTrailer().GetMetadata() {
							k := strings.ToLower(kv.Key)
							v := kv.Value
							if strings.HasSuffix(k, "-bin") {
								v = c04B64(v)
							}
							gotTrl[k] = append(gotTrl[k], v)
						}
					}
				}
			}
		}
		if d := mdDiff(wantHdr, gotHdr); d != "" {
			res.Violate("response-header-altered/"+rp.Kind+"/"+rp.HeaderWay, "%s: response headers at the caller: %s", where, d)
		}
		if d := mdDiff(wantTrl, gotTrl); d != "" {
			res.Violate("response-trailer-altered/"+rp.Kind, "%s: trailers at the caller: %s", where, d)
		}
		nt := false
		for _, m := range []metadata.MD{wantReq, wantHdr, wantTrl} {
			for k, vs := range m {
				if len(vs) > 1 {
					nt = true
				}
				if strings.HasSuffix(k, "-bin") {
					for _, v := range vs {
						for _, ch := range []byte(v) {
							if ch >= 0x80 || ch == 0 {
								nt = true
							}
						}
					}
				}
			}
		}
		if nt {
			res.DistinctNT++
		}
		res.Stat("rpcs", 1)
		res.Stat("metadata_keys_checked", int64(len(wantReq)+len(wantHdr)+len(wantTrl)))
		res.SetAdd("header_ways", rp.Kind+"/"+rp.HeaderWay)
		if len(samples) < 2 {
			samples = append(samples, map[string]any{"rpc": rp, "request_md_keys": keysOf(wantReq), "header_keys": keysOf(wantHdr), "trailer_keys": keysOf(wantTrl)})
		}
	}
	if len(res.Violations) == 0 {
		c04StalledSendHeader(tier, idx, b, h, res)
	}
	res.Sample = samples
	res.Evals = int64(res.Stats["rpcs"])
	finish(tier, b, h, res)
	return res
}

// c04StalledSendHeader: a handler's SendHeader is stuck handing its frame to the connection's
// busy writer (back-pressure) while a second goroutine of the same handler calls SetHeader.
// Whatever that SetHeader answers must be true: a header it accepted (nil) reaches the caller.
func c04StalledSendHeader(tier string, idx int, b *bed.Bed, h *bed.Hooks, res *core.Result) {
	cc := b.Conns[0]
	gates := NewGates()
	var armed atomic.Bool
	parked := make(chan struct{}, 1)
	release := make(chan struct{})
	h.On("srv.writer.beforeWrite", func(uint64) {
		if armed.CompareAndSwap(true, false) {
			parked <- struct{}{}
			<-release
		}
	})
	defer h.On("srv.writer.beforeWrite", nil)
	h1, h2, h3 := metadata.Pairs("first", "1"), metadata.Pairs("second", "2", "second-bin", "\x00\xff"), metadata.Pairs("third", "3")
	tag := fmt.Sprintf("stall%d", idx)
	var errA, errB error
	b.Impl.SetStream(tag, func(t, k string, ss grpc.ServerStream) error {
		ss.SetHeader(h1)
		gates.Wait("go")
		aDone, bDone := make(chan struct{}), make(chan struct{})
		go func() { errA = ss.SendHeader(h2); close(aDone) }()
		gates.Wait("send-header-blocked")
		go func() { errB = ss.SetHeader(h3); close(bDone) }()
		<-aDone
		<-bDone
		ss.SendMsg(&svc.BV{Value: []byte("m")})
		return nil
	})
	b.Impl.SetUnary("stallu-"+tag, func(ctx context.Context, t string, req []byte) ([]byte, error) { return req, nil })
	s, err := svc.Open(context.Background(), cc, "bidi", tag, nil)
	if err != nil {
		res.Verdict, res.Note = core.Inconclusive, "stalled-header stream did not open"
		return
	}
	quiet(tier)
	armed.Store(true)
	udone := make(chan struct{})
	go func() { svc.Invoke(context.Background(), cc, "stallu-"+tag, []byte("x")); close(udone) }()
	quiet(tier)
	select {
	case <-parked:
	default:
		res.Verdict, res.Note = core.Inconclusive, "the server's writer was not caught before a write"
		close(release)
		gates.OpenAll()
		return
	}
	gates.Open("go")
	quiet(tier) // SendHeader is handing its frame to the busy writer
	gates.Open("send-header-blocked")
	quiet(tier) // the second goroutine's SetHeader has answered or is waiting its turn
	close(release)
	var gotHdr metadata.MD
	done := make(chan struct{})
	go func() {
		defer close(done)
		gotHdr, _ = s.Header()
		s.CloseSend()
		for {
			if _, err := s.Recv(); err != nil {
				break
			}
		}
	}()
	st, snap := settle(tier, func() bool {
		select {
		case <-done:
			select {
			case <-udone:
				return true
			default:
			}
		default:
		}
		return false
	})
	if st == "stuck" {
		res.ViolateD("call-never-returns/stalled-send-header", map[string]any{"goat_goroutines": goatParked(snap)}, "stream with a SendHeader stalled behind a busy writer never completes")
		return
	} else if st != "ok" {
		res.Verdict, res.Note = core.Inconclusive, "watchdog"
		return
	}
	want := norm(h1, h2)
	if errB == nil {
		want = norm(h1, h2, h3)
	}
	if errA != nil {
		res.Stat("stalled_send_header_failed", 1)
	} else if d := mdDiff(want, gotHdr); d != "" {
		res.Violate("response-header-altered/stalled-send-header", "SendHeader stalled behind a busy writer while a second goroutine called SetHeader (answer: %v): headers at the caller: %s", errB, d)
	}
	res.Stat("stalled_send_header_cases", 1)
	res.Stat("rpcs", 1)
}

func keysOf(md metadata.MD) []string {
	var ks []string
	for k, v := range md {
		ks = append(ks, fmt.Sprintf("%s(%d)", k, len(v)))
	}
	sort.Strings(ks)
	return ks
}

func init() {
	core.Register(&core.Prop{
		ID:             "C04",
		Level:          "exploration",
		Rule:           "each case = 20 RPCs (4 kinds cycling) on one connection; per RPC seeded metadata sets: request 0..16 keys via the outgoing context plus 0..4 (and appends to existing keys) via a client interceptor, response headers in two SetHeader/SendHeader calls (repeated keys append), trailers in two SetTrailer calls, keys over [0-9a-z_.-] in random letter case (no two keys equal up to case), 1..4 values, printable ASCII for text keys, arbitrary bytes (NUL, 0xFF, empty) under -bin; header way in {set only, SendHeader, with first message, with the trailer, with the trailer after a first SendMsg that fails to marshal}; 1 in 4 handlers fail; every other call also carries a far deadline; plus one directed RPC per case in which SendHeader is stalled behind the busy connection writer (parked at its hook) while a second goroutine of the handler calls SetHeader: a header that call accepted must reach the caller. Compared key by key (lower-cased keys, per-key order, byte-exact) at the handler, via Header()/Trailer(), via the client stats InHeader for unary headers and on the wire for unary trailers. distinct_nontrivial = RPCs (all distinct by seed) having a multi-valued key or a -bin value with NUL/non-ASCII bytes.",
		Plan:           func(tier string, seed int64) int { return tierN(tier, 30, 2000) },
		ThoroughRounds: 5,
		Run:            c04Run,
		RequiredStats: func(string) []string {
			return []string{"rpcs", "metadata_keys_checked", "stalled_send_header_cases", "rpcs_with_deadline_and_metadata"}
		},
		Assumptions: []string{"no two keys of one set are equal up to letter case (their merge order is unspecified)"},
	})
}

func c04B64(v string) string {
	b, err := base64.URLEncoding.DecodeString(v)
	if err != nil {
		return "<undecodable:" + v + ">"
	}
	return string(b)
}

package props

import (
	"bytes"
	"context"
	"fmt"
	"io"
	"math/rand"
	"net/http"
	"net/http/httptest"
	"strings"
	"sync"
	"testing/iotest"
	"time"

	goat "github.com/avos-io/goat"
	"github.com/avos-io/goat/gen/goatorepo"
	"github.com/coder/websocket"
	"github.com/jonboulle/clockwork"
	"google.golang.org/protobuf/proto"
	"google.golang.org/protobuf/types/known/anypb"
	"google.golang.org/protobuf/types/known/wrapperspb"

	"goatverif/bed"
	"goatverif/core"
	"goatverif/wire"
)

// C19: shipped transports carry every envelope unchanged and reject what is not one.

type c19Case struct {
	Family  string `json:"family"` // ws-roundtrip | ws-raw | chan | http-shapes | http-roundtrip | http-ctx | http-cleaner
	N       int    `json:"n,omitempty"`
	Variant string `json:"variant,omitempty"`
}

func c19List(tier string) []c19Case {
	var out []c19Case
	for i := 0; i < tierN(tier, 6, 60); i++ {
		out = append(out, c19Case{Family: "ws-roundtrip", N: tierN(tier, 500, 1700)})
		out = append(out, c19Case{Family: "ws-raw", N: tierN(tier, 340, 1700)})
		out = append(out, c19Case{Family: "chan", N: tierN(tier, 500, 1700)})
		out = append(out, c19Case{Family: "http-roundtrip", N: tierN(tier, 60, 300)})
	}
	for i := 0; i < tierN(tier, 4, 24); i++ {
		out = append(out, c19Case{Family: "ws-abandoned-write", N: i})
	}
	for i := 0; i < tierN(tier, 2, 10); i++ {
		out = append(out, c19Case{Family: "http-shapes"})
		for _, v := range []string{"read", "write"} {
			out = append(out, c19Case{Family: "http-ctx", Variant: v})
		}
		for _, v := range []string{"tick-before-delivery", "tick-during-blocked-send", "tick-during-parked-delivery", "tick-after-delivery", "tick-idle-connection-reader", "tick-with-undelivered-envelopes"} {
			out = append(out, c19Case{Family: "http-cleaner", Variant: v})
		}
	}
	return out
}

var c19IDs = []uint64{0, 1, 1 << 31, 1 << 63, ^uint64(0)}

// c19Envelope generates envelope number n: all 32 presence combinations cycle, ids across the range,
// bodies 0..1 MiB, non-ASCII strings, repeated fields.
func c19Envelope(r *rand.Rand, n int, maxBody int) *wire.Rpc {
	e := &wire.Rpc{}
	if n%7 == 0 {
		e.Id = r.Uint64()
	} else {
		e.Id = c19IDs[n%len(c19IDs)]
	}
	p := n % 32
	str := func() string {
		return []string{"", "plain", "ünïcödé-✓-日本語", strings.Repeat("x", 300), "a\x00b", " line"}[r.Intn(6)]
	}
	if p&1 != 0 {
		h := &goatorepo.RequestHeader{Method: "/" + str() + "/m", Source: str(), Destination: str()}
		for i := 0; i < r.Intn(5); i++ {
			h.Headers = append(h.Headers, &goatorepo.KeyValue{Key: fmt.Sprintf("k%d", i), Value: str()})
		}
		for i := 0; i < r.Intn(3); i++ {
			h.ProxyRecord = append(h.ProxyRecord, str())
			h.ProxyNext = append(h.ProxyNext, fmt.Sprintf("n%d", i))
		}
		e.Header = h
	}
	if p&2 != 0 {
		st := &goatorepo.ResponseStatus{Code: int32(r.Intn(20) - 2), Message: str()}
		for i := 0; i < r.Intn(3); i++ {
			a, _ := anypb.New(wrapperspb.String(str()))
			st.Details = append(st.Details, a)
		}
		e.Status = st
	}
	if p&4 != 0 {
		sz := []int{0, 1, 32767, 32768, 32769, 1 << 20}[r.Intn(6)]
		if sz > maxBody {
			sz = maxBody
		}
		b := make([]byte, sz)
		r.Read(b)
		e.Body = &goatorepo.Body{Data: b}
	}
	if p&8 != 0 {
		t := &goatorepo.Trailer{}
		for i := 0; i < r.Intn(4); i++ {
			t.Metadata = append(t.Metadata, &goatorepo.KeyValue{Key: fmt.Sprintf("t%d", i), Value: str()})
		}
		e.Trailer = t
	}
	if p&16 != 0 {
		e.Reset_ = &goatorepo.Reset{Type: []string{"RST_STREAM", "", "weird"}[r.Intn(3)]}
	}
	return e
}

func wsPair(ctx context.Context) (srvConn, cliConn *websocket.Conn, cleanup func(), err error) {
	ch := make(chan *websocket.Conn, 1)
	hold := make(chan struct{})
	srv := httptest.NewServer(http.HandlerFunc(func(w http.ResponseWriter, r *http.Request) {
		c, err := websocket.Accept(w, r, nil)
		if err != nil {
			return
		}
		c.SetReadLimit(4 << 20)
		ch <- c
		<-hold
	}))
	c, _, err := websocket.Dial(ctx, "ws"+strings.TrimPrefix(srv.URL, "http"), nil)
	if err != nil {
		srv.Close()
		return nil, nil, nil, err
	}
	c.SetReadLimit(4 << 20)
	select {
	case s := <-ch:
		return s, c, func() { close(hold); s.CloseNow(); c.CloseNow(); srv.Close() }, nil
	case <-time.After(10 * time.Second):
		srv.Close()
		return nil, nil, nil, fmt.Errorf("accept timeout")
	}
}

func c19Run(tier string, seed int64, idx int) *core.Result {
	c := c19List(tier)[idx]
	r := rng(seed, idx, "c19")
	res := &core.Result{Verdict: core.Held, Sample: c, Sig: fmt.Sprintf("%+v/%d", c, idx), NonTrivial: true, Retire: true}
	h := bed.NewHooks()
	switch c.Family {
	case "ws-roundtrip":
		c19WSRound(tier, c, r, res)
	case "ws-raw":
		c19WSRaw(tier, c, r, res)
	case "ws-abandoned-write":
		c19WSAbandonedWrite(tier, c.N, res)
	case "chan":
		c19Chan(tier, c, r, res)
	case "http-shapes":
		c19HTTPShapes(tier, c, r, res)
	case "http-roundtrip":
		c19HTTPRound(tier, c, r, res)
	case "http-ctx":
		c19HTTPCtx(tier, c, r, res)
	case "http-cleaner":
		c19HTTPCleaner(tier, c, r, res, h)
	}
	bed.Uninstall()
	h.Fold(res)
	return res
}

func c19WSRound(tier string, c c19Case, r *rand.Rand, res *core.Result) {
	ctx, cancel := context.WithTimeout(context.Background(), 60*time.Second)
	defer cancel()
	s, cl, cleanup, err := wsPair(ctx)
	if err != nil {
		res.Verdict, res.Note = core.Inconclusive, "websocket setup: "+err.Error()
		return
	}
	defer cleanup()
	a, b := goat.NewGoatOverWebsocket(cl), goat.NewGoatOverWebsocket(s)
	for dir, pair := range [][2]goat.RpcReadWriter{{a, b}, {b, a}} {
		sent := make([]*wire.Rpc, c.N)
		for i := range sent {
			sent[i] = c19Envelope(r, i+dir, 1<<20)
			if i%40 != 0 && sent[i].Body != nil && len(sent[i].Body.Data) > 40000 {
				sent[i].Body.Data = sent[i].Body.Data[:33000] // keep most messages moderate
			}
			if i < 3 {
				// the property's upper body size, and just below it (whatever else the envelope carries)
				bb := make([]byte, (1<<20)-[]int{0, 1, 64}[i])
				r.Read(bb)
				sent[i].Body = &goatorepo.Body{Data: bb}
				res.Stat("ws_bodies_of_1MiB", 1)
			}
		}
		errc := make(chan error, 1)
		go func() {
			for _, e := range sent {
				if err := pair[0].Write(ctx, e); err != nil {
					errc <- err
					return
				}
			}
			errc <- nil
		}()
		for i := range sent {
			got, err := pair[1].Read(ctx)
			if err != nil {
				if ctx.Err() != nil {
					res.Verdict, res.Note = core.Inconclusive, "websocket round trip timed out"
				} else {
					res.Violate("websocket-read-error-on-valid-envelope", "envelope %d (dir %d): Read failed: %v", i, dir, err)
				}
				return
			}
			if !proto.Equal(got, sent[i]) {
				res.Violate("websocket-envelope-altered-or-reordered", "envelope %d (dir %d) read differs from what was written (id %d vs %d)", i, dir, got.GetId(), sent[i].GetId())
				return
			}
		}
		if err := <-errc; err != nil {
			res.Violate("websocket-write-error", "Write failed: %v", err)
			return
		}
		res.Stat("ws_envelopes_roundtripped", int64(c.N))
	}
	// ctx on a blocked Read (kernel I/O involved: judged with a generous watchdog)
	rctx, rcancel := context.WithCancel(context.Background())
	done := make(chan error, 1)
	go func() { _, err := b.Read(rctx); done <- err }()
	time.Sleep(5 * time.Millisecond)
	rcancel()
	select {
	case err := <-done:
		if err == nil {
			res.Violate("websocket-read-returns-nil-after-cancel", "blocked Read returned no error after its context was cancelled")
		}
		res.Stat("ws_ctx_reads_checked", 1)
	case <-time.After(20 * time.Second):
		res.Verdict, res.Note = core.Inconclusive, "websocket Read did not return within 20 s of cancel (kernel I/O: inconclusive)"
	}
	res.Evals = int64(2 * c.N)
}

func c19WSRaw(tier string, c c19Case, r *rand.Rand, res *core.Result) {
	ctx, cancel := context.WithTimeout(context.Background(), 60*time.Second)
	defer cancel()
	n := 0
	for n < c.N {
		// a failed Read may leave the connection unusable: one connection per small batch
		s, cl, cleanup, err := wsPair(ctx)
		if err != nil {
			res.Verdict, res.Note = core.Inconclusive, "websocket setup: "+err.Error()
			return
		}
		rd := goat.NewGoatOverWebsocket(s)
		for k := 0; k < 20 && n < c.N; k++ {
			n++
			valid, _ := proto.Marshal(c19Envelope(r, n, 2000))
			raw := valid
			typ := websocket.MessageBinary
			what := "valid"
			switch r.Intn(6) {
			case 0:
				typ, what = websocket.MessageText, "text-frame"
				switch n % 3 {
				case 0:
					raw = []byte("hello " + fmt.Sprint(n))
				case 1:
					// a text frame whose payload happens to be a well-formed envelope encoding (all ASCII)
					raw, _ = proto.Marshal(&wire.Rpc{Id: 7, Header: &goatorepo.RequestHeader{Method: "/a/b", Source: "s", Destination: "d"}, Body: &goatorepo.Body{Data: []byte("ascii")}})
				default:
					raw = []byte{} // empty text message = encoding of the empty envelope
				}
			case 1:
				if len(raw) > 1 {
					raw = raw[:r.Intn(len(raw))]
					what = "truncated"
				}
			case 2:
				if len(raw) > 0 {
					raw = append([]byte{}, raw...)
					raw[r.Intn(len(raw))] ^= byte(1 << r.Intn(8))
					what = "bit-flipped"
				}
			case 3:
				raw = make([]byte, r.Intn(200))
				r.Read(raw)
				what = "random"
			case 4:
				raw, what = []byte{}, "empty"
			}
			if err := cl.Write(ctx, typ, raw); err != nil {
				res.Verdict, res.Note = core.Inconclusive, "raw websocket write failed"
				cleanup()
				return
			}
			got, err := rd.Read(ctx)
			var ref wire.Rpc
			refErr := proto.Unmarshal(raw, &ref)
			res.Stat("ws_raw_inputs_"+what, 1)
			if typ == websocket.MessageText {
				if err == nil {
					res.Violate("websocket-text-frame-delivered", "a text frame was delivered as an envelope")
				}
				continue
			}
			if (err != nil) != (refErr != nil) {
				if ctx.Err() != nil {
					res.Verdict, res.Note = core.Inconclusive, "timeout"
					cleanup()
					return
				}
				res.Violate("websocket-raw-accept-mismatch/"+what, "%s input of %d bytes: Read error=%v but reference decode error=%v", what, len(raw), err, refErr)
				continue
			}
			if err == nil && !proto.Equal(got, &ref) {
				res.Violate("websocket-raw-decoded-differently", "%s input decoded to a value different from the reference decode", what)
			}
		}
		cleanup()
	}
	res.Evals = int64(n)
}

func c19Chan(tier string, c c19Case, r *rand.Rand, res *core.Result) {
	in, out := make(chan *goat.Rpc, c.N%3), make(chan *goat.Rpc, c.N%3)
	a := goat.NewGoatOverChannel(in, out) // reads in, writes out
	b := goat.NewGoatOverChannel(out, in)
	ctx := context.Background()
	sent := make([]*wire.Rpc, c.N)
	for i := range sent {
		sent[i] = c19Envelope(r, i, 1000)
	}
	go func() {
		for _, e := range sent {
			a.Write(ctx, e)
		}
	}()
	for i := range sent {
		got, err := b.Read(ctx)
		if err != nil || got != sent[i] {
			res.Violate("channel-transport-order-or-identity", "envelope %d: read %p err %v, wrote %p", i, got, err, sent[i])
			return
		}
	}
	res.Stat("chan_envelopes", int64(c.N))
	// ctx on blocked Read and blocked Write: decidable at final states (no kernel I/O)
	in2, out2 := make(chan *goat.Rpc), make(chan *goat.Rpc)
	t := goat.NewGoatOverChannel(in2, out2)
	for _, op := range []string{"read", "write"} {
		cctx, cancel := context.WithCancel(context.Background())
		done := make(chan error, 1)
		go func() {
			if op == "read" {
				_, err := t.Read(cctx)
				done <- err
			} else {
				done <- t.Write(cctx, sent[0])
			}
		}()
		quiet(tier)
		cancel()
		var err error
		got := false
		st, _ := settle(tier, func() bool {
			select {
			case err = <-done:
				got = true
				return true
			default:
				return got
			}
		})
		if st == "stuck" {
			res.Violate("channel-transport-ignores-context/"+op, "a blocked %s on the channel transport has not returned at a final state after its context was cancelled", op)
		} else if st == "ok" && err == nil {
			res.Violate("channel-transport-cancel-returns-nil/"+op, "blocked %s returned nil after cancel", op)
		}
		res.Stat("chan_ctx_ops_checked", 1)
	}
	// a closed input channel is reported as an error
	close(in2)
	if _, err := t.Read(context.Background()); err == nil {
		res.Violate("channel-transport-closed-input-not-reported", "Read on a closed input channel returned no error")
	}
	res.Evals = int64(c.N)
	res.Retire = false
}

type c19Recorder struct {
	mu    sync.Mutex
	conns map[string]goat.RpcReadWriter
}

func newGoh(opts ...goat.GoatOverHttpOption) (*goat.GoatOverHttp, *c19Recorder) {
	rec := &c19Recorder{conns: map[string]goat.RpcReadWriter{}}
	g := goat.NewGoatOverHttp(func(id string, rw goat.RpcReadWriter) {
		rec.mu.Lock()
		rec.conns[id] = rw
		rec.mu.Unlock()
	}, func(src string) (string, error) {
		if strings.HasPrefix(src, "bad") {
			return "", fmt.Errorf("unmappable source")
		}
		return "addr-of-" + src, nil
	}, opts...)
	return g, rec
}

func c19HTTPShapes(tier string, c c19Case, r *rand.Rand, res *core.Result) {
	g, rec := newGoh()
	defer g.Cancel()
	delivered := 0
	var dmu sync.Mutex
	// a reader per announced connection
	stop := make(chan struct{})
	defer close(stop)
	go func() {
		seen := map[string]bool{}
		for {
			select {
			case <-stop:
				return
			default:
			}
			rec.mu.Lock()
			for id, rw := range rec.conns {
				if !seen[id] {
					seen[id] = true
					go func(rw goat.RpcReadWriter) {
						for {
							if _, err := rw.Read(context.Background()); err != nil {
								return
							}
							dmu.Lock()
							delivered++
							dmu.Unlock()
						}
					}(rw)
				}
			}
			rec.mu.Unlock()
			time.Sleep(200 * time.Microsecond)
		}
	}()
	valid := func(src string) []byte {
		b, _ := proto.Marshal(&wire.Rpc{Id: 5, Header: &goatorepo.RequestHeader{Method: "/a/b", Source: src, Destination: "d"}, Body: &goatorepo.Body{Data: []byte("x")}})
		return b
	}
	noHeader, _ := proto.Marshal(&wire.Rpc{Id: 6, Body: &goatorepo.Body{Data: []byte("x")}})
	noSource, _ := proto.Marshal(&wire.Rpc{Id: 7, Header: &goatorepo.RequestHeader{Method: "/a/b"}})
	type shape struct {
		name    string
		body    []byte
		nilBody bool
		want    int
		breaks  bool // the body breaks off (read error) after these bytes
	}
	// a request whose body breaks off exactly where the bytes read so far happen to decode as a
	// complete (shorter) envelope from a fresh source: it was not received, so it is not delivered
	brokenOff, _ := proto.Marshal(&wire.Rpc{Id: 9, Header: &goatorepo.RequestHeader{Method: "/a/b", Source: "s3"}})
	shapes := []shape{
		{"nil-body", nil, true, 400, false}, {"empty-body", []byte{}, false, 400, false}, {"garbage", []byte{0xff, 0xff, 0xff, 0xff}, false, 400, false},
		{"truncated", valid("s1")[:5], false, 400, false}, {"no-header", noHeader, false, 400, false}, {"no-source", noSource, false, 400, false},
		{"mapper-error", valid("bad-src"), false, 400, false}, {"valid", valid("s1"), false, 200, false}, {"valid-second-source", valid("s2"), false, 200, false},
		{"valid-again", valid("s1"), false, 200, false},
		{"body-breaks-off-on-a-field-boundary", brokenOff, false, 400, true},
	}
	for i := 0; i < 30; i++ {
		b := make([]byte, r.Intn(60))
		r.Read(b)
		var ref wire.Rpc
		want := 400
		if proto.Unmarshal(b, &ref) == nil && ref.GetHeader() != nil && ref.GetHeader().GetSource() != "" && !strings.HasPrefix(ref.GetHeader().GetSource(), "bad") {
			want = 200
		}
		shapes = append(shapes, shape{"random", b, false, want, false})
	}
	wantDelivered := 0
	for _, sh := range shapes {
		var req *http.Request
		if sh.nilBody {
			req = httptest.NewRequest("POST", "/", nil)
			req.Body = nil
		} else if sh.breaks {
			req = httptest.NewRequest("POST", "/", io.MultiReader(bytes.NewReader(sh.body), iotest.ErrReader(fmt.Errorf("connection reset by peer"))))
		} else {
			req = httptest.NewRequest("POST", "/", bytes.NewReader(sh.body))
		}
		w := httptest.NewRecorder()
		done := make(chan any, 1)
		go func() {
			defer func() { done <- recover() }()
			g.ServeHTTP(w, req)
		}()
		select {
		case p := <-done:
			if p != nil {
				res.Violate("servehttp-panics/"+sh.name, "ServeHTTP panicked on request shape %s: %v", sh.name, p)
				continue
			}
		case <-time.After(10 * time.Second):
			res.Verdict, res.Note = core.Inconclusive, "ServeHTTP did not return for shape "+sh.name
			return
		}
		if sh.want == 400 && w.Code != 400 {
			res.Violate("malformed-http-request-not-rejected/"+sh.name, "request shape %s answered with %d, want 400", sh.name, w.Code)
		}
		if sh.want == 200 {
			if w.Code != 200 {
				res.Violate("valid-http-request-rejected", "valid request (%s) answered with %d", sh.name, w.Code)
			} else {
				wantDelivered++
			}
		}
		res.Stat("http_request_shapes", 1)
	}
	time.Sleep(20 * time.Millisecond)
	dmu.Lock()
	if delivered != wantDelivered {
		res.Violate("http-delivery-count", "%d envelopes delivered to readers, %d valid requests were accepted (malformed input must never be delivered, valid exactly once)", delivered, wantDelivered)
	}
	dmu.Unlock()
	res.Evals = int64(len(shapes))
}

func c19HTTPRound(tier string, c c19Case, r *rand.Rand, res *core.Result) {
	// instance B behind a loopback server; A's logical connection writes to it
	var srvB *httptest.Server
	recvd := make(chan *wire.Rpc, c.N)
	gB := goat.NewGoatOverHttp(func(id string, rw goat.RpcReadWriter) {
		go func() {
			for {
				m, err := rw.Read(context.Background())
				if err != nil {
					return
				}
				recvd <- m
			}
		}()
	}, func(src string) (string, error) { return "peer-" + src, nil })
	defer gB.Cancel()
	srvB = httptest.NewServer(gB)
	defer srvB.Close()
	gA, _ := newGoh()
	defer gA.Cancel()
	conn := gA.NewConnection(strings.TrimPrefix(srvB.URL, "http://"))
	ctx, cancel := context.WithTimeout(context.Background(), 60*time.Second)
	defer cancel()
	for i := 0; i < c.N; i++ {
		e := c19Envelope(r, i, 200000)
		if i < 3 {
			// the property's upper body size, and just below it
			b := make([]byte, (1<<20)-[]int{0, 1, 64}[i])
			r.Read(b)
			e.Body = &goatorepo.Body{Data: b}
		}
		if e.Header == nil {
			e.Header = &goatorepo.RequestHeader{}
		}
		e.Header.Source = "src-one" // HTTP requires a header with a source
		if err := conn.Write(ctx, e); err != nil {
			res.Violate("http-write-error-on-valid-envelope", "Write of envelope %d failed: %v", i, err)
			return
		}
		select {
		case got := <-recvd:
			if !proto.Equal(got, e) {
				res.Violate("http-envelope-altered-or-reordered", "envelope %d read over HTTP differs from what was written", i)
				return
			}
		case <-time.After(15 * time.Second):
			// loopback HTTP, the reader is waiting: 15 s without the envelope means it was lost
			res.Violate("http-envelope-lost", "envelope %d (body %d bytes) was written with a nil error but never delivered to the reader within 15 s", i, len(e.GetBody().GetData()))
			return
		}
	}
	res.Stat("http_envelopes_roundtripped", int64(c.N))
	res.Evals = int64(c.N)
}

func c19HTTPCtx(tier string, c c19Case, r *rand.Rand, res *core.Result) {
	g, _ := newGoh()
	defer g.Cancel()
	if c.Variant == "read" {
		conn := g.NewConnection("somewhere")
		ctx, cancel := context.WithCancel(context.Background())
		done := make(chan error, 1)
		go func() { _, err := conn.Read(ctx); done <- err }()
		time.Sleep(2 * time.Millisecond)
		cancel()
		select {
		case err := <-done:
			if err == nil {
				res.Violate("http-read-returns-nil-after-cancel", "blocked HTTP Read returned nil after cancel")
			}
		case <-time.After(3 * time.Second):
			// no kernel I/O on this path (the Read waits on a channel): 3 s without returning is a hang, not load
			res.Violate("http-read-ignores-context", "a blocked Read on an HTTP logical connection has not returned 3 s after its context was cancelled")
		}
		res.Stat("http_ctx_reads_checked", 1)
		return
	}
	// write: a server that never answers
	hold := make(chan struct{})
	srv := httptest.NewServer(http.HandlerFunc(func(w http.ResponseWriter, r *http.Request) { <-hold }))
	defer func() { close(hold); srv.Close() }()
	conn := g.NewConnection(strings.TrimPrefix(srv.URL, "http://"))
	ctx, cancel := context.WithCancel(context.Background())
	done := make(chan error, 1)
	go func() {
		done <- conn.Write(ctx, &wire.Rpc{Id: 1, Header: &goatorepo.RequestHeader{Source: "s"}})
	}()
	time.Sleep(20 * time.Millisecond)
	cancel()
	select {
	case err := <-done:
		if err == nil {
			res.Violate("http-write-returns-nil-after-cancel", "blocked HTTP Write returned nil although the peer never answered")
		}
	case <-time.After(10 * time.Second):
		res.Violate("http-write-ignores-context", "a Write blocked on an unresponsive HTTP peer has not returned 10 s after its context was cancelled")
	}
	res.Stat("http_ctx_writes_checked", 1)
}

func c19HTTPCleaner(tier string, c c19Case, r *rand.Rand, res *core.Result, h *bed.Hooks) {
	fc := clockwork.NewFakeClock()
	parkedCh := make(chan struct{})
	release := make(chan struct{})
	var once sync.Once
	if c.Variant == "tick-during-parked-delivery" {
		h.On("http.deliver", func(uint64) { once.Do(func() { close(parkedCh) }); <-release })
	}
	h.Install()
	g, rec := newGoh(goat.WithClock(fc), goat.WithConnectionCleanupInterval(time.Minute), goat.WithConnectionTimeout(4*time.Minute))
	defer g.Cancel()
	blocked := make(chan struct{})
	go func() { fc.BlockUntil(1); close(blocked) }()
	select {
	case <-blocked:
	case <-time.After(10 * time.Second):
		res.Verdict, res.Note = core.Inconclusive, "cleaner ticker not registered"
		return
	}
	body, _ := proto.Marshal(&wire.Rpc{Id: 9, Header: &goatorepo.RequestHeader{Method: "/a/b", Source: "s1"}, Body: &goatorepo.Body{Data: []byte("x")}})
	serve := func() (chan any, *httptest.ResponseRecorder) {
		w := httptest.NewRecorder()
		done := make(chan any, 1)
		go func() {
			defer func() { done <- recover() }()
			g.ServeHTTP(w, httptest.NewRequest("POST", "/", bytes.NewReader(body)))
		}()
		return done, w
	}
	tick := func() {
		fc.Advance(time.Minute)
		time.Sleep(5 * time.Millisecond) // let the cleaner goroutine run; the verdicts below do not depend on it
		quiet(tier)
	}
	readerOf := func() goat.RpcReadWriter {
		for i := 0; i < 2000; i++ {
			rec.mu.Lock()
			rw := rec.conns["addr-of-s1"]
			rec.mu.Unlock()
			if rw != nil {
				return rw
			}
			time.Sleep(100 * time.Microsecond)
		}
		return nil
	}
	checkPanic := func(done chan any, what string) bool {
		select {
		case p := <-done:
			if p != nil {
				res.Violate("servehttp-panics-when-cleaner-runs/"+c.Variant, "ServeHTTP panicked (%v) %s", p, what)
				return false
			}
			return true
		case <-time.After(10 * time.Second):
			res.Violate("servehttp-stuck-after-idle-timeout/"+c.Variant, "ServeHTTP neither delivered nor failed within 10 s %s", what)
			return false
		}
	}
	switch c.Variant {
	case "tick-with-undelivered-envelopes":
		// 8 sources post one envelope each while nobody reads their connections; then the idle
		// timeout closes the connections; then the owners read until failure. An envelope that was
		// acknowledged with 200 must have been read.
		type post struct {
			done chan any
			w    *httptest.ResponseRecorder
		}
		posts := map[string]post{}
		for k := 0; k < 8; k++ {
			src := fmt.Sprintf("u%d", k)
			bd, _ := proto.Marshal(&wire.Rpc{Id: uint64(100 + k), Header: &goatorepo.RequestHeader{Method: "/a/b", Source: src}, Body: &goatorepo.Body{Data: []byte("x")}})
			w := httptest.NewRecorder()
			done := make(chan any, 1)
			go func() {
				defer func() { done <- recover() }()
				g.ServeHTTP(w, httptest.NewRequest("POST", "/", bytes.NewReader(bd)))
			}()
			posts[src] = post{done, w}
		}
		quiet(tier)
		tick()
		for src, p := range posts {
			if !checkPanic(p.done, "with an undelivered envelope when the idle cleaner ran") {
				return
			}
			rec.mu.Lock()
			rw := rec.conns["addr-of-"+src]
			rec.mu.Unlock()
			read := 0
			if rw != nil {
				rctx, rcancel := context.WithTimeout(context.Background(), 5*time.Second)
				for {
					if _, err := rw.Read(rctx); err != nil {
						break
					}
					read++
				}
				rcancel()
			}
			if p.w.Code == 200 && read == 0 {
				res.Violate("http-envelope-acknowledged-but-never-delivered", "source %s: the POST was answered 200 but its envelope was never read (the connection timed out with the envelope undelivered)", src)
				return
			}
			if p.w.Code != 200 && read > 0 {
				res.Violate("http-envelope-refused-but-delivered", "source %s: the POST was answered %d but its envelope was read", src, p.w.Code)
				return
			}
		}
		res.Stat("cleaner_with_undelivered_envelopes_checked", 1)
	case "tick-before-delivery":
		tick()
		done, _ := serve()
		rw := readerOf()
		if rw == nil {
			res.Verdict, res.Note = core.Inconclusive, "connection not announced"
			return
		}
		go rw.Read(context.Background())
		checkPanic(done, "delivering after an idle tick")
	case "tick-during-blocked-send", "tick-during-parked-delivery":
		done, _ := serve() // no reader: the delivery blocks (or is parked by the hook just before the send)
		if c.Variant == "tick-during-parked-delivery" {
			select {
			case <-parkedCh:
			case <-time.After(10 * time.Second):
				res.Verdict, res.Note = core.Inconclusive, "hook not reached"
				close(release)
				return
			}
		} else {
			quiet(tier)
		}
		tick() // a brand-new connection has no recorded activity: the first tick times it out
		if c.Variant == "tick-during-parked-delivery" {
			close(release)
		}
		if checkPanic(done, "while the idle cleaner closed the connection under an in-progress delivery") {
			res.Stat("cleaner_during_delivery_checked", 1)
		}
	case "tick-after-delivery":
		done, _ := serve()
		rw := readerOf()
		if rw == nil {
			res.Verdict, res.Note = core.Inconclusive, "connection not announced"
			return
		}
		if _, err := rw.Read(context.Background()); err != nil {
			res.Violate("http-read-fails-on-live-connection", "Read failed: %v", err)
		}
		checkPanic(done, "after a completed delivery")
		tick()
	case "tick-idle-connection-reader":
		// a reader blocked on a connection that then times out must get an error
		done, _ := serve()
		rw := readerOf()
		if rw == nil {
			res.Verdict, res.Note = core.Inconclusive, "connection not announced"
			return
		}
		rw.Read(context.Background())
		checkPanic(done, "after a completed delivery")
		rd := make(chan error, 1)
		go func() { _, err := rw.Read(context.Background()); rd <- err }()
		for i := 0; i < 6; i++ {
			tick()
		}
		select {
		case err := <-rd:
			if err == nil {
				res.Violate("idle-timeout-reader-gets-nil", "reader of a timed-out connection got no error")
			}
			res.Stat("idle_reader_errors_checked", 1)
		case <-time.After(5 * time.Second):
			res.Violate("idle-timeout-reader-blocks", "a reader of a connection idle past its timeout is still blocked after 6 cleaner ticks")
		}
	}
	res.Stat("cleaner_scenarios", 1)
}

func init() {
	core.Register(&core.Prop{
		ID:      "C19",
		Level:   "exploration",
		Rule:    "(ws-roundtrip) envelopes cycling all 32 presence combinations of the five sub-messages x ids {0,1,2^31,2^63,2^64-1,random} x bodies {0,1,32Ki-1,32Ki,32Ki+1,1Mi} x non-ASCII strings x repeated fields over a real loopback WebSocket, both directions, proto.Equal and order; (ws-raw) text frames, truncated / bit-flipped / random / empty byte strings: Read fails iff a reference proto.Unmarshal fails and never decodes differently; (chan) pointer identity, order, context on a blocked Read and Write judged at final states; (http-shapes) ServeHTTP with nil / empty / garbage / truncated / header-less / source-less / unmappable / random bodies => 400 and never delivered, valid => delivered once; (http-roundtrip) Write over a loopback HTTP server into another instance; (http-ctx) blocked Read / Write after cancel; (http-cleaner) fake-clock idle tick before, during (blocked send, and parked just before the send by a hook) and after a delivery with ServeHTTP under recover, and a blocked reader of a connection that times out. Distinct = case descriptors. (ws-abandoned-write) a 200 KB Write whose context is cancelled while its frame is half-way onto the (stalling) loopback socket must return; three further Writes must return, and every envelope whose Write returned nil is read on the other end in write order; a Write that never returns is a violation when every goroutine is blocked and no byte is in flight between the two sockets (both ends are in the process), otherwise the 45 s bound is inconclusive.",
		Plan:    func(tier string, seed int64) int { return len(c19List(tier)) },
		Run:     c19Run,
		Workers: 8,
		RequiredStats: func(string) []string {
			return []string{"ws_envelopes_roundtripped", "ws_raw_inputs_text-frame", "ws_raw_inputs_bit-flipped", "chan_ctx_ops_checked", "http_request_shapes", "http_envelopes_roundtripped", "cleaner_scenarios", "http_ctx_reads_checked", "ws_abandoned_write_cases", "ws_bodies_of_1MiB", "cleaner_with_undelivered_envelopes_checked"}
		},
		Assumptions: []string{"WebSocket and HTTP involve kernel I/O: 'returns after cancel' is judged with generous wall-clock watchdogs there (expiry = inconclusive for WebSocket; the HTTP Read path has no I/O and the HTTP Write bound is 10 s)", "the WebSocket read limit is configured by the harness on the connections it supplies"},
	})
}

package props

import (
	"context"
	"fmt"
	"sort"
	"sync"
	"sync/atomic"
	"time"

	goat "github.com/avos-io/goat"
	"github.com/avos-io/goat/gen/goatorepo"
	"google.golang.org/protobuf/proto"

	"goatverif/bed"
	"goatverif/core"
	"goatverif/wire"
)

// C18: a demultiplexer gives each key its own ordered connection and shares the writer.

type c18Case struct {
	Family string `json:"family"` // sequences | cancel | cancel-handoff | cancel-writer | stop | stop-handoff | rpc-c01 | rpc-c02
	Keys   int    `json:"keys,omitempty"`
	N      int    `json:"envelopes,omitempty"`
	At     int    `json:"at_step,omitempty"`
	Index  int    `json:"index,omitempty"`
	GMP    int    `json:"gomaxprocs,omitempty"`
}

func c18List(tier string) []c18Case {
	var out []c18Case
	i := 0
	ns := tierN(tier, 16, 300)
	for k := 0; k < ns; k++ {
		i++
		out = append(out, c18Case{Family: "sequences", Keys: 1 + k%8, N: tierN(tier, 200, 600), GMP: []int{1, 4, 16}[i%3]})
	}
	steps := []int{0, 1, 2, 5, 9}
	if tier == "thorough" {
		steps = []int{0, 1, 2, 3, 4, 5, 6, 7, 8, 9, 10, 15, 20}
	}
	reps := tierN(tier, 1, 6)
	for r := 0; r < reps; r++ {
		for _, fam := range []string{"cancel", "cancel-handoff", "cancel-writer", "stop", "stop-handoff"} {
			for _, at := range steps {
				i++
				out = append(out, c18Case{Family: fam, Keys: 1 + (i+r)%4, N: 24 + r, At: at, GMP: []int{1, 4, 16}[i%3]})
			}
		}
	}
	for k := 0; k < tierN(tier, 12, 200); k++ {
		out = append(out, c18Case{Family: "rpc-c01", Index: 4*k + 3}) // fan-in topology cases of C01
	}
	for k := 0; k < tierN(tier, 30, 600); k++ {
		out = append(out, c18Case{Family: "rpc-c02", Index: k})
	}
	return out
}

type c18Conn struct {
	key                    string
	rw                     goat.RpcReadWriter
	mu                     sync.Mutex
	got                    []*wire.Rpc
	rerr                   error
	werr                   error
	readerDone, writerDone bool
	okWrites               []uint64          // logical start times of the writes that succeeded
	n                      int               // announcement number
	attempts               map[uint64]uint64 // envelope id -> logical start time of the Write that carried it (successful or not)
}

func c18Run(tier string, seed int64, idx int) *core.Result {
	c := c18List(tier)[idx]
	res := &core.Result{Verdict: core.Held, Sample: c, Sig: fmt.Sprintf("%+v/%d", c, idx), NonTrivial: true}
	if c.Family == "rpc-c01" || c.Family == "rpc-c02" {
		var sub *core.Result
		if c.Family == "rpc-c01" {
			sub = c01Run(tier, seed, c.Index)
		} else {
			sub = c02RunTopo(tier, seed, c.Index, "fanin")
		}
		res.Retire, res.Verdict, res.Note = sub.Retire, sub.Verdict, sub.Note
		for _, v := range sub.Violations {
			res.Violations = append(res.Violations, core.Violation{Key: "rpc-through-demux/" + v.Key, Msg: "RPC workload through fan-in + Demux + Serve: " + v.Msg, Detail: v.Detail})
		}
		res.Stat("rpc_workload_cases_through_demux", 1)
		res.Stat("hook:demux.handoff", sub.Stats["hook:demux.handoff"])
		return res
	}
	r := rng(seed, idx, "c18")
	wroteIDs = map[uint64]*wire.Rpc{}
	setGMP(c.GMP)
	h := bed.NewHooks()
	if idx%2 == 0 {
		h.Jitter = uint64(seed)*19 + uint64(idx) + 1
	}
	// rendezvous at the hand-off
	var hmu sync.Mutex
	parkID := uint64(0)
	parked := make(chan struct{})
	release := make(chan struct{})
	var parkOnce sync.Once
	h.On("demux.handoff", func(id uint64) {
		hmu.Lock()
		p := parkID != 0 && id == parkID
		hmu.Unlock()
		if p {
			parkOnce.Do(func() { close(parked) })
			<-release
		}
	})
	h.Install()
	shared := wire.NewLink(0, idx%2 == 0)
	abandon := c.Family == "sequences" && idx%8 == 5
	if c.Family == "sequences" && idx%4 == 1 && !abandon {
		// one write on the shared transport fails (once): the logical connection whose Write it was
		// learns of it; nothing else changes - in particular nobody has been cancelled
		shared.B.FailWritesAt(1)
		res.Stat("shared_write_faults", 1)
	}
	// abandon variant: the first connection's first Write is given up by its caller (context) while
	// the shared transport is stalled inside that write; the write then completes, and the
	// connection's next write hits a one-shot fault: every Write reports its own envelope's outcome
	const abandonID = uint64(1)<<32 | 0xabad
	var abandonedN, abandonFaults atomic.Int64
	stallEntered := make(chan struct{})
	stallRelease := make(chan struct{})
	if abandon {
		var once sync.Once
		shared.B.SetOnWriteEntry(func(r *wire.Rpc) {
			if r.GetId() == abandonID {
				once.Do(func() { close(stallEntered) })
				<-stallRelease
			}
		})
	}
	ctx, cancel := context.WithCancel(context.Background())
	defer cancel()
	var mu sync.Mutex
	conns := map[string][]*c18Conn{} // per key, in creation order
	announced := 0
	readGate := NewGates()
	writesPerConn := 3
	if c.Family == "cancel-writer" {
		writesPerConn = 20000
	}
	var w Waiter
	deadCtx, deadCancel := context.WithCancel(context.Background())
	deadCancel()
	var pauseReaders atomic.Bool
	var keepWriting atomic.Bool
	keepWriting.Store(c.Family == "cancel-writer")
	var cancelTick uint64
	cancelReturned := false
	var cancelTarget *c18Conn
	dm := goat.NewDemux(ctx, shared.B, func(r *goat.Rpc) string { return r.GetHeader().GetSource() }, func(rw goat.RpcReadWriter) {
		// the key is learnt from the first envelope read
		cn := &c18Conn{rw: rw}
		mu.Lock()
		announced++
		n := announced
		cn.n = n
		mu.Unlock()
		w.Add(2)
		go func() { // reader: always drains (unless gated by the scenario)
			defer w.Done()
			for {
				if pauseReaders.Load() {
					readGate.Wait("reader")
				}
				if n%2 == 0 {
					// an impatient consumer: polls with a context that is already over; that must not
					// consume anything
					if m, err := rw.Read(deadCtx); err == nil {
						cn.mu.Lock()
						if cn.key == "" {
							cn.key = m.GetHeader().GetSource()
							mu.Lock()
							conns[cn.key] = append(conns[cn.key], cn)
							mu.Unlock()
						}
						cn.got = append(cn.got, m)
						cn.mu.Unlock()
						continue
					}
				}
				m, err := rw.Read(ctx)
				if err != nil {
					cn.mu.Lock()
					cn.rerr, cn.readerDone = err, true
					cn.mu.Unlock()
					return
				}
				cn.mu.Lock()
				if cn.key == "" {
					cn.key = m.GetHeader().GetSource()
					mu.Lock()
					conns[cn.key] = append(conns[cn.key], cn)
					mu.Unlock()
				}
				cn.got = append(cn.got, m)
				cn.mu.Unlock()
			}
		}()
		go func() { // writer: unique envelopes back through the logical connection
			defer w.Done()
			nw := writesPerConn
			if n > 1 {
				nw = 3 // only the first connection's writer hammers
			}
			if abandon && n == 1 {
				actx, acancel := context.WithCancel(ctx)
				go func() {
					select {
					case <-stallEntered:
					case <-ctx.Done():
					}
					acancel()
				}()
				e0 := &wire.Rpc{Id: abandonID, Header: &goatorepo.RequestHeader{Method: "/w", Source: "conn1", Destination: "peer"}, Body: &goatorepo.Body{Data: []byte("abandoned")}}
				before := shared.B.Writes()
				err := rw.Write(actx, e0)
				acancel()
				close(stallRelease)
				if err == nil {
					mu.Lock()
					wroteIDs[e0.Id] = proto.Clone(e0).(*wire.Rpc)
					mu.Unlock()
				} else {
					abandonedN.Add(1)
				}
				// the abandoned envelope's write completes now; the connection's next write fails once
				for k := 0; k < 400 && shared.B.Writes() == before; k++ {
					time.Sleep(time.Millisecond)
				}
				shared.B.FailWritesAt(shared.B.Writes())
				abandonFaults.Add(1)
			}
			for i := 0; i < nw; i++ {
				e := &wire.Rpc{Id: uint64(n)<<32 | uint64(i), Header: &goatorepo.RequestHeader{Method: "/w", Source: fmt.Sprintf("conn%d", n), Destination: "peer",
					Headers: []*goatorepo.KeyValue{{Key: "k", Value: fmt.Sprint(i)}}}, Body: &goatorepo.Body{Data: []byte{byte(i), 0xff, 0}}}
				startTick := wire.Tick()
				cn.mu.Lock()
				if cn.attempts == nil {
					cn.attempts = map[uint64]uint64{}
				}
				cn.attempts[e.Id] = startTick
				cn.mu.Unlock()
				if err := rw.Write(ctx, e); err != nil {
					cn.mu.Lock()
					cn.werr = err
					cn.mu.Unlock()
					if n > 1 || !keepWriting.Load() {
						break
					}
					continue // the hammering writer keeps trying: every attempt after the Cancel must fail
				}
				cn.mu.Lock()
				cn.okWrites = append(cn.okWrites, startTick)
				cn.mu.Unlock()
				mu.Lock()
				wroteIDs[e.Id] = proto.Clone(e).(*wire.Rpc)
				mu.Unlock()
			}
			cn.mu.Lock()
			cn.writerDone = true
			cn.mu.Unlock()
		}()
	})
	runDone := make(chan struct{})
	go func() { dm.Run(); close(runDone) }()
	// what arrives on the shared transport from the demux
	var smu sync.Mutex
	var sharedGot []*wire.Rpc
	wire.NewPeer(ctx, shared.A, func(_ *wire.Peer, in *wire.Rpc) {
		smu.Lock()
		sharedGot = append(sharedGot, proto.Clone(in).(*wire.Rpc))
		smu.Unlock()
	})

	keys := make([]string, c.Keys)
	for i := range keys {
		keys[i] = fmt.Sprintf("key%d", i)
	}
	fed := map[string][]uint64{}
	fedAfterCancel := map[uint64]bool{} // envelopes handed to the shared transport after Cancel had returned
	victimKey := keys[0]
	feed := func(n int, key string) bool {
		e := &wire.Rpc{Id: uint64(1000 + n), Header: &goatorepo.RequestHeader{Method: "/m", Source: key, Destination: "srv"}, Body: &goatorepo.Body{Data: []byte{byte(n)}}}
		core.Cursor(fmt.Sprintf("%s: feeding envelope %d key %s", c.Family, n, key))
		fctx, fcancel := context.WithCancel(ctx)
		done := make(chan error, 1)
		go func() { done <- shared.A.Write(fctx, e) }()
		var err error
		got := false
		st, snap := settle(tier, func() bool {
			select {
			case err = <-done:
				got = true
				return true
			default:
				return got
			}
		})
		fcancel()
		if st == "stuck" && (cancelTick != 0 || cancelReturned) && (c.Family == "cancel" || c.Family == "cancel-handoff") {
			// every consumer drains and nothing was stopped: a run loop that takes no more envelopes
			// from the shared transport after a Cancel is stuck on the cancelled connection
			res.ViolateD("demux-stops-reading-after-cancel/"+c.Family, map[string]any{"goat_goroutines": goatParked(snap)}, "after Cancel(%s) the demultiplexer no longer takes envelopes from the shared transport (envelope %d for key %s; final state)", victimKey, n, key)
		}
		if st != "ok" {
			return false // the demux does not take it (stopped / parked): not by itself a violation
		}
		if err == nil {
			fed[key] = append(fed[key], e.Id)
			if cancelTick != 0 {
				fedAfterCancel[e.Id] = true
			}
		}
		return err == nil
	}
	victim := keys[0]
	stopped := false
	// slow-consumer variant: the consumers stop reading for 3.5 s of real time while an envelope sits
	// in the run loop's hand-off - slow, not dead: nothing may be lost
	slow := c.Family == "sequences" && idx%8 == 7
	for n := 0; n < c.N; n++ {
		key := keys[r.Intn(len(keys))]
		if n == 0 || n == c.At+1 || n == c.At+2 {
			key = victim // also right after the Cancel, with no other key in between
		}
		if slow && n == 5 {
			pauseReaders.Store(true) // the victim's reader takes one more envelope, then waits at the gate
		}
		if slow && (n == 5 || n == 6) {
			key = victim
		}
		if slow && n == 7 {
			time.Sleep(3500 * time.Millisecond)
			pauseReaders.Store(false)
			readGate.OpenAll()
			res.Stat("slow_consumer_pauses", 1)
		}
		if n == c.At {
			switch c.Family {
			case "cancel", "cancel-writer":
				if c.Family == "cancel" {
					quiet(tier)
				}
				mu.Lock()
				if cs := conns[victim]; len(cs) > 0 {
					cancelTarget = cs[0]
				}
				mu.Unlock()
				dm.Cancel(victim)
				cancelTick = wire.Tick()
				res.Stat("cancels", 1)
			case "cancel-handoff":
				// park Run between lookup and hand-off of the next victim envelope, cancel, release
				hmu.Lock()
				parkID = uint64(1000 + n)
				hmu.Unlock()
				key = victim
				fed[victim] = append(fed[victim], uint64(1000+n))
				go feedAsync(ctx, shared, n, key)
				if st, _ := settle(tier, func() bool {
					select {
					case <-parked:
						return true
					default:
						return false
					}
				}); st == "ok" {
					mu.Lock()
					if cs := conns[victim]; len(cs) > 0 {
						cancelTarget = cs[0]
					}
					mu.Unlock()
					dm.Cancel(victim)
					cancelReturned = true
					res.Stat("cancel_between_lookup_and_handoff", 1)
				}
				close(release)
				quiet(tier)
				continue
			case "stop":
				quiet(tier)
				dm.Stop()
				stopped = true
			case "stop-handoff":
				// the consumers stop reading; Run parks in a hand-off; then Stop
				pauseReaders.Store(true)
				quiet(tier)
				fed[victim] = append(fed[victim], uint64(1000+n), uint64(1000+n+500))
				go func() { feedAsync(ctx, shared, n, victim); feedAsync(ctx, shared, n+500, victim) }()
				quiet(tier)
				dm.Stop()
				stopped = true
				res.Stat("stop_while_run_is_handing_off", 1)
				// Run must end although the consumers still do not read
				if fin, snap := quiet(tier); fin {
					select {
					case <-runDone:
					default:
						res.ViolateD("run-does-not-return-after-stop/stop-handoff", map[string]any{"goat_goroutines": goatParked(snap)}, "Demux.Run is parked handing an envelope to a consumer that does not read and ignores Stop (final state)")
					}
				}
			}
		}
		if stopped {
			break
		}
		if !feed(n, key) {
			break
		}
	}
	if c.Family != "stop-handoff" {
		readGate.OpenAll()
	}
	quiet(tier)
	// oracle part 1: per key, what the logical connections read == what was fed for that key, in order
	mu.Lock()
	for _, key := range keys {
		var got []uint64
		// connections register themselves at their first read, which may be scheduled after a later
		// connection's: put them in announcement order
		sort.Slice(conns[key], func(i, j int) bool { return conns[key][i].n < conns[key][j].n })
		for _, cn := range conns[key] {
			cn.mu.Lock()
			for _, m := range cn.got {
				got = append(got, m.GetId())
			}
			cn.mu.Unlock()
		}
		want := fed[key]
		// envelopes in flight at a Cancel may be lost with the cancelled connection; otherwise exact
		exact := c.Family == "sequences" || c.Family == "stop" || c.Family == "stop-handoff"
		j := 0
		for _, g := range got {
			for j < len(want) && want[j] != g {
				j++
			}
			if j == len(want) {
				res.Violate("logical-connection-order-or-duplicate", "key %s: logical connection(s) read %v, fed %v", key, got, want)
				break
			}
			j++
		}
		if !exact && !stopped {
			seenIDs := map[uint64]bool{}
			for _, g := range got {
				seenIDs[g] = true
			}
			for _, wid := range want {
				if fedAfterCancel[wid] && !seenIDs[wid] {
					res.Violate("envelope-after-cancel-lost", "key %s: envelope %d was fed after Cancel(%s) had returned (a new logical connection must take it) but was never read; read %v", key, wid, victim, got)
					break
				}
			}
		}
		if exact && !stopped && len(got) != len(want) {
			res.Violate("logical-connection-loses-envelope", "key %s: read %d envelopes, %d were fed", key, len(got), len(want))
		}
		nconn := len(conns[key])
		wantConns := 1
		if len(want) == 0 {
			wantConns = 0
		}
		if (c.Family == "cancel" || c.Family == "cancel-handoff" || c.Family == "cancel-writer") && key == victim {
			if nconn > 2 {
				res.Violate("connection-announced-too-often", "key %s announced %d times with one Cancel", key, nconn)
			}
		} else if nconn > wantConns {
			res.Violate("connection-announced-too-often", "key %s: %d logical connections announced, want %d", key, nconn, wantConns)
		}
	}
	mu.Unlock()
	// oracle part 2: what was written on logical connections arrives unchanged, once, on the shared transport
	smu.Lock()
	mu.Lock()
	seen := map[uint64]int{}
	for _, g := range sharedGot {
		seen[g.GetId()]++
		if wv, ok := wroteIDs[g.GetId()]; ok && !proto.Equal(wv, g) {
			res.Violate("shared-write-altered", "envelope %#x written on a logical connection arrived altered on the shared transport", g.GetId())
		}
	}
	for id, n := range seen {
		if n > 1 {
			res.Violate("shared-write-duplicated", "envelope %#x arrived %d times on the shared transport", id, n)
		}
	}
	if c.Family == "sequences" {
		for id := range wroteIDs {
			if seen[id] != 1 {
				res.Violate("shared-write-lost", "envelope %#x written successfully on a logical connection never reached the shared transport", id)
				break
			}
		}
	}
	res.Stat("logical_writes_checked", int64(len(wroteIDs)))
	if abandon {
		res.Stat("writes_abandoned_inside_the_shared_write", abandonedN.Load())
		res.Stat("shared_write_faults", abandonFaults.Load())
	}
	mu.Unlock()
	smu.Unlock()
	// oracle part 3: after Cancel the victim's reader and writer have failed (not blocked)
	if c.Family == "cancel" || c.Family == "cancel-handoff" || c.Family == "cancel-writer" {
		mu.Lock()
		if cn := cancelTarget; cn != nil {
			cn.mu.Lock()
			if !cn.readerDone {
				res.Violate("read-on-cancelled-connection-blocks", "after Cancel(%s) a Read on its logical connection has not returned at a final state", victim)
			}
			if c.Family == "cancel-writer" && !cn.writerDone {
				res.Violate("write-on-cancelled-connection-blocks", "after Cancel(%s) a Write on its logical connection has not returned at a final state", victim)
			}
			if cancelTick != 0 {
				late := 0
				for _, t := range cn.okWrites {
					if t > cancelTick {
						late++
					}
				}
				if late > 0 {
					res.Violate("write-on-cancelled-connection-succeeds", "%d Write calls started after Cancel(%s) had returned succeeded on its logical connection", late, victim)
				}
				// a write on a cancelled connection fails: it returns an error and it does not transmit
				leaked, lateAttempts := 0, 0
				for id, t := range cn.attempts {
					if t > cancelTick {
						lateAttempts++
						if seen[id] > 0 {
							leaked++
						}
					}
				}
				if leaked > 0 {
					res.Violate("write-after-cancel-reaches-shared-transport", "%d envelopes whose Write started after Cancel(%s) had returned were written to the shared transport", leaked, victim)
				}
				res.Stat("write_attempts_after_cancel", int64(lateAttempts))
				res.Stat("writes_after_cancel_checked", 1)
			}
			cn.mu.Unlock()
			res.Stat("cancelled_connections_checked", 1)
		}
		mu.Unlock()
	}
	// shutdown
	keepWriting.Store(false)
	endedBy := "Stop"
	if !stopped {
		if c.Family == "sequences" && idx%4 == 3 {
			// the run loop ends because the shared transport's read side fails, not by Stop
			shared.B.FailRead()
			endedBy = "a read failure of the shared transport"
			res.Stat("runs_ended_by_transport_failure", 1)
		} else {
			dm.Stop()
		}
	}
	readGate.OpenAll()
	final, snap := quiet(tier)
	if final {
		select {
		case <-runDone:
		default:
			res.ViolateD("run-does-not-return-after-stop/"+c.Family, map[string]any{"goat_goroutines": goatParked(snap)}, "Demux.Run has not returned at a final state after %s (%s)", endedBy, c.Family)
		}
		res.Stat("stops_checked", 1)
		// the owner goes on tidying up after the run loop has ended: every key is cancelled (a crash
		// here ends the child process and is attributed to this case)
		core.Cursor("Cancel(key) for every key after Demux.Run ended by " + endedBy)
		for _, key := range keys {
			dm.Cancel(key)
		}
		res.Stat("keys_cancelled_after_run_ended", int64(len(keys)))
	} else if res.Verdict == core.Held {
		res.Verdict, res.Note = core.Inconclusive, "no final state after Stop"
	}
	cancel()
	shared.Kill()
	left, fin := bed.Hygiene(watchdog(tier))
	bed.Uninstall()
	h.Fold(res)
	if !fin || len(left) > 0 {
		res.Retire = true
	}
	res.Evals = int64(c.N)
	return res
}

var wroteIDs = map[uint64]*wire.Rpc{}

func feedAsync(ctx context.Context, shared *wire.Link, n int, key string) {
	e := &wire.Rpc{Id: uint64(1000 + n), Header: &goatorepo.RequestHeader{Method: "/m", Source: key, Destination: "srv"}, Body: &goatorepo.Body{Data: []byte{byte(n)}}}
	shared.A.Write(ctx, e)
}

func init() {
	core.Register(&core.Prop{
		ID:             "C18",
		Level:          "fault_enumeration",
		Rule:           "(sequences) 1..8 keys, 200..600 uniquely numbered envelopes with random keys on the shared link, one always-draining reader and one writer goroutine per announced logical connection: per key the sequence read equals the fed subsequence, one announcement per key, every envelope written on a logical connection arrives unchanged exactly once on the shared transport; every fourth case the shared transport fails one write and works again (every eighth: after the first connection's first Write was given up by its caller while the shared transport was stalled inside it): the writers go on, every later write must return and nothing whose Write returned nil may be missing. (cancel / cancel-writer) Cancel(key) after step s, with a writer hammering the connection: no Write begun after Cancel returned succeeds, and none of their envelopes reaches the shared transport; (cancel-handoff) Cancel placed by a rendezvous hook exactly between Run's lookup and its hand-off; (stop / stop-handoff) Stop after step s, also while Run is parked handing over to consumers that do not read: the process must survive, reads/writes on the cancelled connection return, Run returns - all judged at final states; every eighth sequences case has consumers that stop reading for 3.5 s of real time with an envelope in the run loop's hand-off (nothing may be lost); every fourth sequences case ends its run loop by a read failure of the shared transport instead of Stop; after the run loop has ended every key is cancelled (the owner's tidy-up), which must not crash. (rpc) C01 fan-in cases and C02 cases forced through k clients - fan-in - Demux - one Server. Distinct = case tuples; all non-trivial.",
		Plan:           func(tier string, seed int64) int { return len(c18List(tier)) },
		ThoroughRounds: 8,
		Run:            c18Run,
		RequiredStats: func(string) []string {
			return []string{"logical_writes_checked", "cancels", "cancel_between_lookup_and_handoff", "stop_while_run_is_handing_off", "stops_checked", "rpc_workload_cases_through_demux", "cancelled_connections_checked"}
		},
	})
}

package props

import (
	"context"
	"fmt"
	"runtime"
	"sync"
	"sync/atomic"
	"time"

	goat "github.com/avos-io/goat"
	"google.golang.org/grpc"
	"google.golang.org/grpc/codes"
	"google.golang.org/grpc/status"

	"goatverif/bed"
	"goatverif/core"
	"goatverif/svc"
	"goatverif/wire"
)

// C14: finishing an RPC releases everything held for it; state stays bounded.

type c14Case struct {
	Rounds   int  `json:"rounds"`
	PerRound int  `json:"max_concurrent"`
	Ser      bool `json:"serialising"`
	Cap      int  `json:"link_capacity"`
	GMP      int  `json:"gomaxprocs"`
	Scripted bool `json:"scripted_server,omitempty"`
}

var c14Outcomes = []string{"unary-ok", "unary-error", "unary-cancel", "unary-deadline", "stream-ok", "stream-error", "stream-cancel", "stream-deadline", "stream-server-reset", "stream-early-return", "stream-cancel-abandon", "stream-send-unmarshalable", "unary-expired-deadline"}

func c14Gen(tier string, seed int64, idx int) c14Case {
	r := rng(seed, idx, "c14")
	c := c14Case{Rounds: tierN(tier, 20, 200), PerRound: []int{1, 4, 16, 32}[r.Intn(4)], Ser: r.Intn(2) == 0, Cap: []int{0, 8}[r.Intn(2)], GMP: []int{1, 4, 16}[r.Intn(3)]}
	if idx == 0 {
		c.PerRound = 32
	}
	return c
}

// c14Scripted: a history of stream calls against a scripted server that makes the abandoning
// caller's own send side busy (transport back-pressure) or sends an undecodable response; the
// client's registry and goroutines are sampled after every call.
func c14Scripted(tier string, seed int64, idx int, c c14Case, res *core.Result) {
	setGMP(c.GMP)
	h := bed.NewHooks()
	h.Install()
	l := wire.NewLink(0, c.Ser)
	ctx, cancel := context.WithCancel(context.Background())
	defer cancel()
	fp := newFloodPeer(ctx, l)
	// every other cancellation round: the blocked send's transport write notices the end of its
	// context a little late - after the stream's read loop has started to end the stream
	var holdArmed atomic.Bool
	var holdFrom atomic.Int64
	l.A.SetCtxErrHold(func() {
		if !holdArmed.CompareAndSwap(true, false) {
			return
		}
		for k := 0; k < 2000 && h.Hits()["cs.readloop.exit"] <= holdFrom.Load(); k++ {
			time.Sleep(time.Millisecond)
		}
		time.Sleep(10 * time.Millisecond)
	})
	cc := goat.NewClientConn(l.A, "c0", "srv")
	probe := func() bool {
		pdone := make(chan error, 1)
		go func() {
			_, err := svc.Invoke(context.Background(), cc, "probe", []byte("probe"))
			pdone <- err
		}()
		var perr error
		got := false
		st, snap := settle(tier, func() bool {
			select {
			case perr = <-pdone:
				got = true
			default:
			}
			return got
		})
		if st == "stuck" {
			res.ViolateD("rpc-never-returns/after-scripted-abandonment", map[string]any{"goroutines": goatParked(snap)}, "a unary call on the connection never returns: final state reached")
			return false
		}
		return st == "ok" && perr == nil
	}
	baseline := -1
	sample := func(round int, what string) bool {
		final, snap := quiet(tier)
		if !final {
			res.Verdict, res.Note = core.Inconclusive, "no final state at sample point"
			return false
		}
		n := len(snap.Goat())
		if baseline < 0 {
			baseline = n
			return true
		}
		reg, regOK := goat.VerifClientRegistrySizeTry(cc)
		if !regOK {
			res.ViolateD("client-multiplexer-wedged/"+what, map[string]any{"goroutines": goatParked(snap)}, "round %d: at a quiescent point the client multiplexer's mutex is held by a blocked goroutine (after %s)", round, what)
			return false
		}
		res.Stat("sample_points", 1)
		res.Stat("scripted_sample_points", 1)
		if reg != 0 {
			res.ViolateD("client-registration-leak/"+what, map[string]any{"goroutines": goatParked(snap)}, "round %d: %d calls still registered on the client connection with no RPC in flight (after %s)", round, reg, what)
			return false
		}
		if n != baseline {
			res.ViolateD("goroutine-leak/"+what, map[string]any{"goroutines": goatParked(snap)}, "round %d: %d goroutines with goat frames at a quiescent point, idle level is %d (after %s)", round, n, baseline, what)
			return false
		}
		return true
	}
	ok := probe() && sample(-1, "setup")
	for round := 0; ok && round < c.Rounds; round++ {
		mode := []string{"cancel-while-send-blocked-with-unread", "undecodable-response-then-more"}[round%2]
		mm := 3 + (round/2)%4
		fp.set(mode, mm)
		before := fp.openedN()
		m := svc.NewManualCtx(context.Background())
		var w Waiter
		w.Add(1)
		go func() {
			defer w.Done()
			s, err := svc.Open(m, cc, "bidi", "ab", []byte("q"))
			if err != nil {
				return
			}
			if mode == "cancel-while-send-blocked-with-unread" {
				for k := 0; k < 50; k++ {
					if s.Send([]byte("up")) != nil {
						break
					}
				}
				return
			}
			s.Recv() // fails: the caller stops using the stream without cancelling
		}()
		quiet(tier)
		if fp.openedN() == before {
			res.Verdict, res.Note = core.Inconclusive, "stream open did not reach the scripted server"
			break
		}
		if mode == "cancel-while-send-blocked-with-unread" {
			if round%8 < 4 {
				holdFrom.Store(h.Hits()["cs.readloop.exit"])
				holdArmed.Store(true)
				res.Stat("blocked_send_released_after_read_loop_exit", 1)
			}
			if round%4 == 0 {
				m.Cancel()
			} else {
				m.Fire()
			}
			awaitTeardownOrFinal(tier, &w)
			fp.resume()
		}
		st, snap := settle(tier, func() bool { return w.Left() == 0 })
		if st == "stuck" {
			res.ViolateD("rpc-never-returns/"+mode, map[string]any{"goroutines": goatParked(snap)}, "round %d: the caller's own operation never returns (%s, m=%d)", round, mode, mm)
			break
		} else if st != "ok" {
			res.Verdict, res.Note = core.Inconclusive, "watchdog in scripted round"
			break
		}
		res.Stat("rpcs", 1)
		res.Evals++
		res.SetAdd("outcomes", "scripted/"+mode)
		if !sample(round, mode) {
			break
		}
		if mode == "undecodable-response-then-more" {
			m.Cancel() // the caller's context ends eventually; nothing may reappear
		}
		ok = probe() && sample(round, mode+" + probe")
	}
	cancel()
	l.Kill()
	left, final := bed.Hygiene(watchdog(tier))
	bed.Uninstall()
	h.Fold(res)
	if !final || len(left) > 0 {
		res.Retire = true
	}
}

// c14AbortParked: a stream that the library aborts itself (a message the codec cannot encode) with
// its caller's context alive - in the one interleaving that matters: the aborting goroutine has
// unregistered the stream (which wakes the stream's read loop) and is held, at a hook, before it
// cancels the stream's context, until the read loop has finished. The server must still be told:
// afterwards no stream is registered there and the handler has returned.
func c14AbortParked(tier string, seed int64, idx int, c c14Case, res *core.Result) {
	setGMP(c.GMP)
	h := bed.NewHooks()
	var armed atomic.Bool
	parked := make(chan struct{}, 1)
	release := make(chan struct{})
	h.On("cs.teardown.beforeCancel", func(uint64) {
		if armed.CompareAndSwap(true, false) {
			parked <- struct{}{}
			<-release
		}
	})
	h.Install()
	goat.VerifResetTracking()
	b := bed.New(bed.Opts{Cap: c.Cap, Serialise: c.Ser})
	cc := b.Conns[0]
	for round := 0; round < 8 && len(res.Violations) == 0 && res.Verdict == core.Held; round++ {
		tag := fmt.Sprintf("ap%d-%d", idx, round)
		returned := make(chan struct{})
		b.Impl.SetStream(tag, func(t, k string, ss grpc.ServerStream) error {
			defer close(returned)
			for ss.RecvMsg(new(svc.BV)) == nil {
			}
			return nil
		})
		s, err := svc.Open(context.Background(), cc, []string{"bidi", "client"}[round%2], tag, nil)
		if err != nil {
			res.Verdict, res.Note = core.Inconclusive, "open failed"
			break
		}
		if round%2 == 1 {
			s.Send([]byte("fine"))
		}
		quiet(tier)
		armed.Store(true)
		done := make(chan struct{})
		go func() { s.SendMsg("not a protobuf message"); close(done) }()
		if st, _ := settle(tier, func() bool { return len(parked) > 0 }); st != "ok" {
			res.Verdict, res.Note = core.Inconclusive, "the aborting send did not reach the hook: "+st
			close(release)
			break
		}
		<-parked
		quiet(tier) // the read loop has run to its end while the stream's context was still live
		release <- struct{}{}
		settle(tier, func() bool {
			select {
			case <-done:
				return true
			default:
				return false
			}
		})
		final, snap := quiet(tier)
		if !final {
			res.Verdict, res.Note = core.Inconclusive, "no final state"
			break
		}
		select {
		case <-returned:
		default:
			res.ViolateD("server-stream-registration-leak/library-aborted-stream", map[string]any{"goroutines": goatParked(snap)}, "round %d: the client aborted the stream itself (unencodable message, caller's context alive) and is done with it; the server's handler is still running: it was never reset", round)
		}
		for _, k := range goat.VerifServerStreamCounts() {
			if k != 0 && len(res.Violations) == 0 {
				res.Violate("server-stream-registration-leak/library-aborted-stream", "round %d: %d streams still registered on the server connection with no RPC in flight", round, k)
			}
		}
		res.Stat("library_aborts_with_teardown_parked", 1)
		res.Stat("sample_points", 1)
		res.Stat("rpcs", 1)
		res.Evals++
	}
	res.NonTrivial = true
	finish(tier, b, h, res)
}

func c14Run(tier string, seed int64, idx int) *core.Result {
	c := c14Gen(tier, seed, idx)
	r := rng(seed, idx, "c14run")
	res := &core.Result{Verdict: core.Held, Sample: c, Sig: fmt.Sprintf("%+v/%d", c, idx)}
	if idx%10 == 8 {
		res.Sample = map[string]any{"case": c, "family": "library-abort-with-teardown-parked"}
		c14AbortParked(tier, seed, idx, c, res)
		return res
	}
	if idx%10 == 9 {
		c.Scripted = true
		res.Sample = c
		res.NonTrivial = true
		c14Scripted(tier, seed, idx, c, res)
		return res
	}
	setGMP(c.GMP)
	h := bed.NewHooks()
	if idx%2 == 0 {
		h.Jitter = uint64(seed)*29 + uint64(idx) + 5
	}
	h.Install()
	goat.VerifResetTracking()
	topo := ""
	if idx%10 == 7 {
		// the same kind of history relayed by a proxy (client - proxy - Demux - Serve), at most 4 RPCs at
		// a time (the proxy's per-destination buffer): whatever ends an RPC must reach the server
		topo = "proxy"
		if c.PerRound > 4 {
			c.PerRound = 4
		}
		res.Stat("histories_through_proxy", 1)
	}
	b := bed.New(bed.Opts{Cap: c.Cap, Serialise: c.Ser, Topology: topo})
	cc := b.Conns[0]
	end := b.Links[0].A
	gates := NewGates()

	baseline := -1
	seenOutcomes := map[string]bool{}
	sample := func(round int, what string) bool {
		final, snap := quiet(tier)
		if !final {
			res.Verdict, res.Note = core.Inconclusive, "no final state at sample point"
			return false
		}
		n := len(snap.Goat())
		if baseline < 0 {
			baseline = n
			res.StatMax("idle_goat_goroutines", int64(n))
		}
		reg, regOK := goat.VerifClientRegistrySizeTry(cc)
		if !regOK {
			// at a final state nobody can be running inside the multiplexer: the mutex is held by a blocked goroutine
			res.ViolateD("client-multiplexer-wedged/"+what, map[string]any{"goroutines": goatParked(snap)}, "round %d: at a quiescent point the client multiplexer's mutex is held by a blocked goroutine (after %s)", round, what)
			return false
		}
		res.Stat("sample_points", 1)
		if len(seenOutcomes) == len(c14Outcomes)+1 {
			res.Stat("sample_points_after_all_outcomes", 1)
		}
		if reg != 0 {
			res.Violate("client-registration-leak/"+what, "round %d: %d calls still registered on the client connection with no RPC in flight (after %s)", round, reg, what)
			return false
		}
		for _, k := range goat.VerifServerStreamCounts() {
			if k != 0 {
				res.Violate("server-stream-registration-leak/"+what, "round %d: %d streams still registered on the server connection with no RPC in flight", round, k)
				return false
			}
		}
		for _, k := range goat.VerifServerUnaryTracked() {
			if k != 0 {
				res.Violate("server-unary-registration-leak/"+what, "round %d: %d unary handlers still tracked (cancel functions registered) on the server connection with no RPC in flight", round, k)
				return false
			}
		}
		if n != baseline {
			res.ViolateD("goroutine-leak/"+what, map[string]any{"goroutines": goatParked(snap)}, "round %d: %d goroutines with goat frames at a quiescent point, idle level is %d (after %s)", round, n, baseline, what)
			return false
		}
		return true
	}
	if topo == "proxy" {
		// the proxy dials the server on first use: let that happen before the idle level is taken
		svc.Invoke(context.Background(), cc, fmt.Sprintf("warm%d", idx), []byte("x"))
	}
	if !sample(-1, "setup") {
		finish(tier, b, h, res)
		return res
	}
	rpcN := 0
	for round := 0; round < c.Rounds && res.Verdict == core.Held; round++ {
		n := 1 + r.Intn(c.PerRound)
		var wg sync.WaitGroup
		var w Waiter
		w.Add(n)
		lateGate := fmt.Sprintf("late-%d", round)
		parkedUnary := 0
		for i := 0; i < n; i++ {
			rpcN++
			tag := fmt.Sprintf("r%d-%d-%d", idx, round, i)
			oc := c14Outcomes[r.Intn(len(c14Outcomes))]
			// A handler that returns while its caller keeps sending must not share a round with
			// other live streams (no flow control: resets for the late bodies queue behind unread
			// responses and the mix can deadlock by construction); such rounds hold only those
			// streams and unary calls.
			abandonRound := round%3 == 2
			isAbandon := oc == "stream-server-reset" || oc == "stream-early-return"
			isStream := len(oc) > 6 && oc[:6] == "stream"
			if abandonRound && isStream && !isAbandon {
				oc = "stream-early-return"
			} else if !abandonRound && isAbandon {
				oc = "stream-ok"
			}
			if oc == "unary-cancel" || oc == "unary-deadline" {
				// their handlers stay parked until the round is over; the server has 8 unary
				// workers per connection, so at most 4 per round may be held
				if parkedUnary >= 4 {
					oc = "unary-ok"
				} else {
					parkedUnary++
				}
			}
			seenOutcomes[oc] = true
			k := r.Intn(4)
			wg.Add(1)
			go func() {
				defer wg.Done()
				defer w.Done()
				c14One(cc, b, gates, tag, oc, k, lateGate)
			}()
		}
		st, snap := settle(tier, func() bool { return w.Left() == 0 })
		gates.Open(lateGate)
		if topo == "proxy" && h.Hits()["proxy.drop"] > 0 {
			// the proxy dropped an envelope on its full 16-slot buffer (the known finding of C16): a
			// call that waits for the lost envelope, or a registration whose reset was the casualty,
			// is that finding's consequence, not a resource leak of client or server. The history
			// ends here; what it showed up to this round stands.
			res.Stat("proxy_histories_ended_by_drop_on_full", 1)
			break
		}
		if st == "stuck" {
			res.ViolateD("rpc-never-returns", map[string]any{"goroutines": goatParked(snap)}, "round %d: an RPC did not return", round)
			break
		} else if st == "timeout" {
			res.Verdict, res.Note = core.Inconclusive, "watchdog in round"
			break
		}
		wg.Wait()
		res.Stat("rpcs", int64(n))
		if !sample(round, "mixed round") {
			break
		}
		// failed opens: the transport write of the open envelope fails (one-shot), alone on the connection
		if round%4 == 3 {
			seenOutcomes["failed-open"] = true
			nf := 1 + r.Intn(3)
			for j := 0; j < nf; j++ {
				end.FailWriteAt(end.Writes(), true)
				_, err := svc.Open(context.Background(), cc, []string{"bidi", "client", "server"}[j%3], "fo", []byte("x"))
				if err == nil {
					res.Violate("failed-open-not-reported", "open whose transport write failed returned no error")
				}
				res.Stat("failed_opens", 1)
			}
			res.Stat("rpcs", int64(nf))
			if !sample(round, "failed open") {
				break
			}
		}
	}
	for o := range seenOutcomes {
		res.SetAdd("outcomes", o)
	}
	res.Evals = int64(rpcN)
	res.NonTrivial = len(seenOutcomes) == len(c14Outcomes)+1
	finish(tier, b, h, res)
	return res
}

// c14One runs one RPC with the given outcome to completion.
func c14One(cc grpc.ClientConnInterface, b *bed.Bed, gates *Gates, tag, outcome string, k int, lateGate string) {
	herr := status.Error(codes.ResourceExhausted, "no")
	switch outcome {
	case "unary-ok", "unary-error":
		b.Impl.SetUnary(tag, func(ctx context.Context, t string, req []byte) ([]byte, error) {
			if outcome == "unary-error" {
				return nil, herr
			}
			return req, nil
		})
		svc.Invoke(context.Background(), cc, tag, []byte(tag))
	case "unary-cancel", "unary-deadline":
		entered := make(chan struct{})
		b.Impl.SetUnary(tag, func(ctx context.Context, t string, req []byte) ([]byte, error) {
			close(entered)
			gates.Wait(lateGate) // goat does not propagate unary cancellation; the handler finishes later
			return req, nil
		})
		m := svc.NewManualCtx(context.Background())
		go func() {
			<-entered
			if outcome == "unary-cancel" {
				m.Cancel()
			} else {
				m.Fire()
			}
		}()
		svc.Invoke(m, cc, tag, []byte(tag))
	case "unary-expired-deadline":
		// the caller's deadline has already passed when it makes the call; the request may still
		// leave (a transport need not look at the context first). A handler that waits for its
		// context must then be released by the deadline it was sent (real timer, 1 ms at most).
		entered, returned := make(chan struct{}), make(chan struct{})
		b.Impl.SetUnary(tag, func(ctx context.Context, t string, req []byte) ([]byte, error) {
			close(entered)
			defer close(returned)
			<-ctx.Done()
			return nil, ctx.Err()
		})
		dctx, dcancel := context.WithDeadline(context.Background(), time.Now().Add(-50*time.Millisecond))
		svc.Invoke(dctx, cc, tag, []byte(tag))
		dcancel()
		left := false
		for _, e := range b.Links[0].Tap.Log() {
			if e.Dir == 0 && kvHasTag(e.Rpc) == tag {
				left = true
			}
		}
		if left { // the request reached the server: its handler starts, and must end
			// (polling with sleeps, not a timer select: a sleeping goroutine keeps the driver's
			// final-state detector from calling the round stuck while a real timer is pending)
			isClosed := func(c chan struct{}) bool {
				select {
				case <-c:
					return true
				default:
					return false
				}
			}
			for dl := time.Now().Add(5 * time.Second); !isClosed(returned) && time.Now().Before(dl); {
				time.Sleep(200 * time.Microsecond)
			}
			_ = entered
		}
	case "stream-send-unmarshalable":
		// the library itself aborts the stream (a message the codec cannot encode) while the caller's
		// context stays alive; the caller does nothing more with the stream
		kind := []string{"bidi", "client"}[k%2]
		hrec := &SideRec{}
		b.Impl.SetStream(tag, func(t, kd string, ss grpc.ServerStream) error {
			return runHandlerProg(ss, t, []Op{{Op: "recvAll"}}, hrec, gates)
		})
		if s, err := svc.Open(context.Background(), cc, kind, tag, nil); err == nil {
			if k >= 2 {
				s.Send([]byte("fine"))
			}
			s.SendMsg("not a protobuf message")
		}
	default:
		kind := []string{"bidi", "client", "server"}[k%3]
		hrec := &SideRec{}
		var hops, cops []Op
		m := svc.NewManualCtx(context.Background())
		switch outcome {
		case "stream-ok", "stream-error":
			ret := Op{Op: "ret"}
			if outcome == "stream-error" {
				ret.Err = herr
			}
			switch kind {
			case "bidi":
				hops = []Op{{Op: "echo"}, ret}
				cops = []Op{{Op: "send", N: 1, Size: 17}, {Op: "recv", N: 1}, {Op: "closeSend"}, {Op: "recvAll"}}
			case "client":
				hops = []Op{{Op: "recvAll"}, {Op: "send", N: 1, Size: 17}, ret}
				cops = []Op{{Op: "send", N: 1 + k, Size: 17}, {Op: "closeSend"}, {Op: "recv", N: 1}, {Op: "recvAll"}}
			default:
				hops = []Op{{Op: "recv", N: 1}, {Op: "send", N: 1 + k, Size: 17}, ret}
				cops = []Op{{Op: "recvAll"}}
			}
		case "stream-cancel", "stream-deadline":
			end := "cancel"
			if outcome == "stream-deadline" {
				end = "fire"
			}
			switch kind {
			case "bidi":
				hops = []Op{{Op: "echo"}}
				for i := 0; i < k; i++ {
					cops = append(cops, Op{Op: "send", N: 1, Size: 17}, Op{Op: "recv", N: 1})
				}
				cops = append(cops, Op{Op: end}, Op{Op: "recvAll"})
			case "client":
				hops = []Op{{Op: "recvAll"}, {Op: "send", N: 1, Size: 17}}
				if k > 0 {
					cops = append(cops, Op{Op: "send", N: k, Size: 17})
				}
				cops = append(cops, Op{Op: end}, Op{Op: "recvAll"})
			default:
				hops = []Op{{Op: "recv", N: 1}, {Op: "send", N: k, Size: 17}, {Op: "waitCtx"}}
				if k == 0 {
					hops = []Op{{Op: "recv", N: 1}, {Op: "waitCtx"}}
				}
				cops = []Op{}
				if k > 0 {
					cops = append(cops, Op{Op: "recv", N: k})
				}
				cops = append(cops, Op{Op: end}, Op{Op: "recvAll"})
			}
		case "stream-cancel-abandon":
			// the caller cancels with responses unread and never touches the stream again
			if kind == "client" {
				kind = "bidi"
			}
			hops = []Op{{Op: "send", N: 1 + k, Size: 17}, {Op: "waitCtx"}}
			if kind == "server" {
				hops = append([]Op{{Op: "recv", N: 1}}, hops...)
			}
			cops = []Op{{Op: "gate", Gate: "abandon/" + tag}, {Op: "cancel"}}
			if k%2 == 1 {
				cops = []Op{{Op: "gate", Gate: "abandon/" + tag}, {Op: "fire"}}
			}
			go func() {
				// cancel once the handler's messages are on their way (bounded: the gate opens in any case)
				for i := 0; i < 50; i++ {
					runtime.Gosched()
				}
				gates.Open("abandon/" + tag)
			}()
		case "stream-server-reset", "stream-early-return":
			// handler returns after one message; the caller keeps sending (late bodies are answered by resets)
			if kind == "server" {
				kind = "bidi"
			}
			hops = []Op{{Op: "recv", N: 1}}
			if outcome == "stream-server-reset" {
				hops = append(hops, Op{Op: "ret", Err: herr})
			}
			// (late messages of size 0 have an empty encoding: they are still messages, not opens)
			cops = []Op{{Op: "send", N: 2 + k, Size: []int{17, 0}[k%2]}, {Op: "closeSend"}, {Op: "recvAll"}}
		}
		if kind == "server" && len(hops) > 0 && hops[0].Op == "recv" {
			// the handler bursts only once the caller's open (Send + CloseSend) has returned
			hops = append([]Op{hops[0], {Op: "gate", Gate: "go/" + tag}}, hops[1:]...)
			cops = append([]Op{{Op: "openGate", Gate: "go/" + tag}}, cops...)
		}
		b.Impl.SetStream(tag, func(t, kd string, ss grpc.ServerStream) error { return runHandlerProg(ss, t, hops, hrec, gates) })
		cr := StartClient(m, m.Cancel, m.Fire, cc, kind, tag, []byte("q"), cops, nil, gates, nil, nil)
		cr.wg.Wait()
		m.Cancel()
	}
}

func init() {
	core.Register(&core.Prop{
		ID:       "C14",
		Level:    "exploration",
		Rule:     "each case is one long history on ONE connection: rounds of 1..32 concurrent RPCs with outcomes drawn from {unary ok/error/cancel/deadline, stream ok/error/cancel/deadline/server-reset/early-return/cancel-with-responses-unread-and-never-touched-again/send of an unencodable message with a live context/unary call made after its deadline had passed} x 3 stream kinds, plus (every 4th round) opens whose transport write fails and a stream whose send fails once in the transport write; after every round the driver waits for a provably final state and samples client registry size, server stream registry size, the server's table of tracked unary handlers and the number of goroutines with goat frames against the idle level. evaluations = RPCs executed; every 10th case runs its history through a proxy (at most 4 RPCs at a time; the history ends at the first envelope the proxy drops on its full buffer - C16's known finding - instead of judging what follows from the loss); every 10th case is instead 8 library-aborted streams (unencodable message, caller context alive) in the interleaving where the aborting goroutine is held at a hook between unregistering the stream and cancelling its context until the read loop has finished; every 10th case is instead a history against a SCRIPTED server on one connection, alternating {caller cancelled / deadline fired while its send is blocked by transport back-pressure with m in 3..6 responses unread; in half of these rounds the blocked transport write notices the end of its context only after the stream's read loop has started to end the stream} and {first response undecodable, caller stops without cancelling, m-1 more follow}, each followed by a unary probe, sampled the same way. a case is non-trivial when all 14 outcome classes occurred in its history; distinct = distinct (parameters, seed index).",
		Plan:     func(tier string, seed int64) int { return tierN(tier, 80, 640) },
		Run:      c14Run,
		MaxStats: []string{"idle_goat_goroutines"},
		RequiredStats: func(string) []string {
			return []string{"sample_points", "failed_opens", "sample_points_after_all_outcomes", "scripted_sample_points", "library_aborts_with_teardown_parked", "histories_through_proxy"}
		},
	})
}

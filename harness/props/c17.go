package props

import (
	"context"
	"fmt"
	"io"
	"strings"
	"sync"

	goat "github.com/avos-io/goat"
	"github.com/avos-io/goat/gen/goatorepo"
	"google.golang.org/protobuf/proto"

	"goatverif/bed"
	"goatverif/core"
	"goatverif/wire"
)

// C17: a proxy rejects spoofed sources, isolates bad peers and shuts down cleanly.

type c17Case struct {
	Family   string `json:"family"` // source | isolation | reattach | cancel
	Variant  string `json:"variant"`
	CancelAt int    `json:"cancel_after_step"` // -1 = at the end only
	N        int    `json:"envelopes"`
	GMP      int    `json:"gomaxprocs"`
}

func c17List(tier string) []c17Case {
	var out []c17Case
	i := 0
	add := func(f, v string, steps int) {
		cs := []int{-1}
		for k := 0; k <= steps; k++ {
			cs = append(cs, k)
		}
		if tier != "thorough" && steps > 2 {
			cs = []int{-1, 0, steps / 2, steps}
		}
		for _, k := range cs {
			i++
			out = append(out, c17Case{f, v, k, tierN(tier, 30, 120), []int{1, 4, 16}[i%3]})
		}
	}
	for _, v := range []string{"source-equal", "source-different", "header-absent", "source-empty", "source-different-with-proxy-record", "source-empty-with-proxy-record", "source-equal-with-empty-route", "source-different-relayed-by-sender", "source-different-translated-onto-sender", "header-absent-from-anonymous-peer", "mixed"} {
		add("source", v, 3)
	}
	for _, v := range []string{"stuck-writer", "failing-reader", "failing-writer", "dial-error", "slow-dial"} {
		add("isolation", v, 4)
	}
	for _, v := range []string{"reattach-before-old-fails", "reattach-after-old-fails", "reattach-before-old-write-fails", "reattach-from-disconnect-callback", "reattach-old-stays-open"} {
		add("reattach", v, 4)
	}
	for _, v := range []string{"serve-loop-held-in-intercepter", "serve-loop-held-in-disconnect-callback"} {
		for k := 0; k < 3; k++ {
			i++
			out = append(out, c17Case{"cancel-busy", v, -1, 2 + 3*k, []int{1, 4, 16}[i%3]})
		}
	}
	reps := tierN(tier, 1, 12)
	base := append([]c17Case{}, out...)
	for r := 1; r < reps; r++ {
		for _, c := range base {
			c.N += r
			out = append(out, c)
		}
	}
	return out
}

type c17Peer struct {
	name string
	link *wire.Link
	mu   sync.Mutex
	got  []*wire.Rpc
}

func c17Run(tier string, seed int64, idx int) *core.Result {
	c := c17List(tier)[idx]
	res := &core.Result{Verdict: core.Held, Sample: c, Sig: fmt.Sprintf("%+v", c), NonTrivial: true, Retire: true}
	setGMP(c.GMP)
	h := bed.NewHooks()
	if idx%2 == 0 {
		h.Jitter = uint64(seed)*11 + uint64(idx) + 1
	}
	h.Install()
	ctx, cancel := context.WithCancel(context.Background())
	defer cancel()
	var mu sync.Mutex
	var disconnects []string
	gates := NewGates()
	dialable := map[string]*c17Peer{}
	mkPeer := func(name string, drain bool) *c17Peer {
		p := &c17Peer{name: name, link: wire.NewLink(0, idx%2 == 0)}
		if drain {
			wire.NewPeer(ctx, p.link.A, func(_ *wire.Peer, in *wire.Rpc) {
				p.mu.Lock()
				p.got = append(p.got, proto.Clone(in).(*wire.Rpc))
				p.mu.Unlock()
			})
		}
		return p
	}
	var px *goat.Proxy
	var cbNewer *c17Peer // the connection the disconnect callback re-attaches (variant reattach-from-disconnect-callback)
	px = goat.NewProxy(ctx, "px", func(id string) (goat.RpcReadWriter, error) {
		switch id {
		case "slow":
			gates.Wait("dial")
			mu.Lock()
			p := dialable[id]
			mu.Unlock()
			return p.link.B, nil
		}
		return nil, fmt.Errorf("cannot dial %q", id)
	}, func(hd *goatorepo.RequestHeader) error {
		// (an ordinary intercepter: it looks at the header it is given without asking whether there is one)
		if hd.Destination == "hold" && c.Variant == "serve-loop-held-in-intercepter" {
			gates.Wait("serve-loop")
		}
		// address translation may also canonicalise the source (private names onto public ones)
		hd.Source = strings.TrimPrefix(hd.Source, "alias-of-")
		return nil
	}, func(id string, reason error) {
		mu.Lock()
		disconnects = append(disconnects, id)
		mu.Unlock()
		if c.Variant == "serve-loop-held-in-disconnect-callback" && id == "failing" {
			gates.Wait("serve-loop")
		}
		if c.Variant == "reattach-from-disconnect-callback" && id == "a1" {
			// the natural reconnect pattern: the callback attaches the peer's new connection
			mu.Lock()
			nw := cbNewer
			cbNewer = nil
			mu.Unlock()
			if nw != nil {
				px.AddClient("a1", nw.link.B)
			}
		}
	})
	a0, a1 := mkPeer("a0", true), mkPeer("a1", true)
	px.AddClient("a0", a0.link.B)
	px.AddClient("a1", a1.link.B)
	served := make(chan struct{})
	go func() { px.Serve(); close(served) }()

	step := 0
	cancelled := false
	next := func() bool { // returns false once the context has been cancelled
		if c.CancelAt == step && !cancelled {
			cancelled = true
			cancel()
		}
		step++
		return !cancelled
	}
	env := func(src, dst string, n int) *wire.Rpc {
		return &wire.Rpc{Id: uint64(n), Header: &goatorepo.RequestHeader{Method: "/x/y", Source: src, Destination: dst}, Body: &goatorepo.Body{Data: []byte{byte(n)}}}
	}
	count := func(p *c17Peer) int { p.mu.Lock(); defer p.mu.Unlock(); return len(p.got) }
	// write hands one envelope to the proxy; a proxy that no longer takes envelopes from a healthy
	// peer (final state with the write pending) is a stall, not a hung driver
	write := func(from *c17Peer, e *wire.Rpc, what string) bool {
		var err error
		wctx, wcancel := context.WithCancel(ctx)
		defer wcancel()
		done := make(chan struct{})
		go func() { err = from.link.A.Write(wctx, e); close(done) }()
		st, snap := settle(tier, func() bool {
			select {
			case <-done:
				return true
			default:
				return false
			}
		})
		if st == "stuck" {
			res.ViolateD("proxy-stops-reading-from-healthy-peer/"+c.Variant, map[string]any{"goat_goroutines": goatParked(snap)}, "%s: the proxy no longer takes envelopes from %s (final state with the write pending)", what, from.name)
			return false
		}
		if st == "timeout" {
			res.Verdict, res.Note = core.Inconclusive, "watchdog"
			return false
		}
		return err == nil
	}
	// sendChecked writes envelopes a0->a1 one at a time (waits for each to arrive) and reports the first that is lost
	sendChecked := func(from, to *c17Peer, lo, hi int, what string) bool {
		for n := lo; n < hi; n++ {
			before := count(to)
			if !write(from, env(from.name, to.name, n), what) {
				return false
			}
			st, snap := settle(tier, func() bool { return count(to) > before })
			if st == "stuck" {
				res.ViolateD("healthy-traffic-stalls/"+c.Variant, map[string]any{"goat_goroutines": goatParked(snap)}, "%s: envelope %d from %s to %s never arrives (final state)", what, n, from.name, to.name)
				return false
			} else if st == "timeout" {
				res.Verdict, res.Note = core.Inconclusive, "watchdog"
				return false
			}
		}
		res.Stat("healthy_envelopes_delivered", int64(hi-lo))
		return true
	}

	var anon *c17Peer
	switch c.Family {
	case "source":
		if next() {
			// a0 claims other sources / sends no header
			for n := 0; n < c.N && res.Verdict == core.Held; n++ {
				var e *wire.Rpc
				kind := c.Variant
				if kind == "mixed" {
					kind = []string{"source-equal", "source-different", "header-absent", "source-empty", "source-different-with-proxy-record", "source-empty-with-proxy-record", "source-equal-with-empty-route", "source-different-relayed-by-sender"}[n%8]
				}
				switch kind {
				case "source-equal":
					e = env("a0", "a1", n)
				case "source-equal-with-empty-route":
					// an honest envelope whose route lists are present but empty: what a by-reference
					// transport hands over when an upstream hop has consumed the last route entry
					e = env("a0", "a1", n)
					e.Header.ProxyNext = []string{}
					e.Header.ProxyRecord = []string{}
				case "source-different":
					e = env("a1", "a1", 1000+n) // claims to be a1
				case "source-empty":
					e = env("", "a1", 2000+n)
				case "source-different-with-proxy-record":
					// dressed up as an envelope relayed by another proxy; the source rule is about the
					// attached connection and knows no such exception
					e = env("a1", "a1", 1500+n)
					e.Header.ProxyRecord = []string{"some-proxy"}
				case "source-different-relayed-by-sender":
					// ... or as one relayed by the sending peer itself
					e = env("a1", "a1", 1700+n)
					e.Header.ProxyRecord = []string{"a0"}
				case "source-empty-with-proxy-record":
					e = env("", "a1", 2500+n)
					e.Header.ProxyRecord = []string{"p1", "p2"}
					e.Header.ProxyNext = []string{"a1"}
				case "source-different-translated-onto-sender":
					// the claimed source is not the name a0 is attached under, although the address
					// translation would map it onto that name: the rule is about what the peer sent
					e = env("alias-of-a0", "a1", 1800+n)
				default:
					e = &wire.Rpc{Id: uint64(3000 + n), Body: &goatorepo.Body{Data: []byte{1}}}
				}
				sender := a0
				if kind == "header-absent-from-anonymous-peer" {
					// names are optional: a peer attached under the empty name sends an envelope without header
					if anon == nil {
						anon = mkPeer("", true)
						px.AddClient("", anon.link.B)
					}
					sender = anon
				}
				core.Cursor(fmt.Sprintf("proxy peer %q sends envelope kind %s", sender.name, kind))
				if !write(sender, e, "hostile envelope") {
					break
				}
			}
		}
		if next() {
			quiet(tier)
		}
		if next() {
			// the proxy still forwards good envelopes afterwards
			sendChecked(a0, a1, 5000, 5003, "after hostile envelopes")
		}
		if next() {
			quiet(tier)
			a1.mu.Lock()
			for _, g := range a1.got {
				if g.GetHeader() == nil || g.GetId() >= 1000 && g.GetId() < 5000 {
					res.Violate("spoofed-or-headerless-envelope-forwarded/"+c.Variant, "the proxy forwarded envelope id %d (header %v) sent by a0", g.GetId(), g.GetHeader())
					break
				}
			}
			a1.mu.Unlock()
			res.Stat("hostile_source_envelopes", int64(c.N))
		}
	case "isolation":
		var bad *c17Peer
		if next() {
			switch c.Variant {
			case "stuck-writer":
				bad = mkPeer("bad", false) // never reads
				guarded(tier, res, "Proxy.AddClient", func() { px.AddClient("bad", bad.link.B) })
			case "failing-reader":
				bad = mkPeer("bad", true)
				guarded(tier, res, "Proxy.AddClient", func() { px.AddClient("bad", bad.link.B) })
				// (the kind of read error follows the cancellation step, so that the complete scenario -
				// no cancellation - always meets the error that looks like a cancellation)
				switch (c.CancelAt + 2) % 3 {
				case 1: // a transport bound to a session context of its own reports its end like this
					bad.link.B.SetReadErr(fmt.Errorf("session ended: %w", context.Canceled))
				case 2:
					bad.link.B.SetReadErr(io.EOF)
				}
				bad.link.B.FailRead()
			case "failing-writer":
				bad = mkPeer("bad", true)
				guarded(tier, res, "Proxy.AddClient", func() { px.AddClient("bad", bad.link.B) })
				bad.link.B.FailWrite()
			case "slow-dial":
				bad = mkPeer("slow", true)
				mu.Lock()
				dialable["slow"] = bad
				mu.Unlock()
			}
		}
		dst := map[string]string{"stuck-writer": "bad", "failing-reader": "bad", "failing-writer": "bad", "dial-error": "unreachable", "slow-dial": "slow"}[c.Variant]
		if next() {
			// traffic towards the bad peer (up to twice its buffer), interleaved with healthy traffic
			for n := 0; n < 40 && res.Verdict == core.Held && len(res.Violations) == 0; n++ {
				if !write(a0, env("a0", dst, 100+n), "traffic towards the "+c.Variant+" peer") {
					break
				}
				if n%8 == 7 {
					if !sendChecked(a0, a1, 200+n, 201+n, "while "+c.Variant+" peer is in the way") {
						break
					}
				}
			}
		}
		if next() {
			sendChecked(a1, a0, 300, 300+c.N/4+1, "reverse direction, "+c.Variant)
		}
		if next() {
			quiet(tier)
			if c.Variant == "failing-reader" || c.Variant == "failing-writer" {
				mu.Lock()
				n := 0
				for _, d := range disconnects {
					if d == "bad" {
						n++
					}
				}
				mu.Unlock()
				if n < 1 {
					res.Violate("failed-connection-not-reported/"+c.Variant, "connection 'bad' failed (%s) but the disconnect callback was not invoked for it", c.Variant)
				}
				guarded(tier, res, "proxy peer table lookup", func() {
					for _, p := range goat.VerifProxyPeers(px) {
						if p == "bad" && goat.VerifProxyPeerConn(px, "bad") == goat.RpcReadWriter(bad.link.B) {
							res.Violate("failed-connection-not-removed/"+c.Variant, "connection 'bad' failed but is still in the proxy's table")
						}
					}
				})
				res.Stat("failure_reports_checked", 1)
			}
			if c.Variant == "dial-error" {
				mu.Lock()
				n := len(disconnects)
				mu.Unlock()
				if n < 1 {
					res.Violate("dial-error-not-reported", "dialling 'unreachable' failed but the disconnect callback was never invoked")
				}
			}
		}
		if next() {
			gates.Open("dial")
			quiet(tier)
		}
	case "cancel-busy":
		// the proxy's single serve loop is held inside user code (the rewriting function / the disconnect
		// callback); meanwhile c.N more peers each hand it an envelope, so their read loops wait for the
		// serve loop; then the context is cancelled and only afterwards the serve loop is let go
		var more []*c17Peer
		for k := 0; k < c.N; k++ {
			p := mkPeer(fmt.Sprintf("m%d", k), true)
			more = append(more, p)
			px.AddClient(p.name, p.link.B)
		}
		if c.Variant == "serve-loop-held-in-intercepter" {
			go a0.link.A.Write(ctx, env("a0", "hold", 1))
		} else {
			f := mkPeer("failing", true)
			px.AddClient("failing", f.link.B)
			f.link.B.FailRead()
		}
		settle(tier, func() bool { return gates.Reached("serve-loop") })
		for k, p := range more {
			go p.link.A.Write(ctx, env(p.name, "a1", 700+k))
		}
		quiet(tier)
		res.Stat("cancel_while_serve_loop_busy", 1)
		cancel()
		quiet(tier)
		gates.Open("serve-loop")
	case "reattach":
		newer := mkPeer("a1", true)
		switch c.Variant {
		case "reattach-from-disconnect-callback":
			mu.Lock()
			cbNewer = newer
			mu.Unlock()
			if next() {
				a1.link.B.FailRead()
				quiet(tier)
			}
			next()
		case "reattach-old-stays-open":
			// the peer attaches a second connection under its name while the first one is still
			// open (and stays open): from then on everything for the name goes to the newer one
			if next() {
				guarded(tier, res, "Proxy.AddClient", func() { px.AddClient("a1", newer.link.B) })
				quiet(tier)
			}
			if next() {
				before := count(a1)
				if sendChecked(a0, newer, 600, 608, "to the re-attached peer while its old connection is still open") && count(a1) != before {
					res.Violate("envelope-delivered-to-superseded-connection", "after a1 attached a newer connection, %d envelopes addressed to a1 were written to its old connection", count(a1)-before)
				}
			}
		case "reattach-before-old-fails", "reattach-before-old-write-fails":
			if next() {
				guarded(tier, res, "Proxy.AddClient", func() { px.AddClient("a1", newer.link.B) })
				quiet(tier)
			}
			if next() {
				if c.Variant == "reattach-before-old-fails" {
					a1.link.B.FailRead()
				} else {
					a1.link.B.FailWrite()
					a1.link.B.FailRead()
				}
				quiet(tier)
			}
		default:
			if next() {
				a1.link.B.FailRead()
				quiet(tier)
			}
			if next() {
				guarded(tier, res, "Proxy.AddClient", func() { px.AddClient("a1", newer.link.B) })
				quiet(tier)
			}
		}
		if next() {
			var got goat.RpcReadWriter
			if !guarded(tier, res, "proxy peer table lookup", func() { got = goat.VerifProxyPeerConn(px, "a1") }) {
				got = newer.link.B
			}
			if got != goat.RpcReadWriter(newer.link.B) {
				res.Violate("newer-connection-lost/"+c.Variant, "after the old 'a1' connection failed the proxy's table no longer holds the newer 'a1' connection (holds %v)", got != nil)
			}
			res.Stat("reattach_checked", 1)
		}
		if next() {
			sendChecked(a0, newer, 400, 403, "to the re-attached peer")
		}
		if next() {
			mu.Lock()
			n := 0
			for _, d := range disconnects {
				if d == "a1" {
					n++
				}
			}
			mu.Unlock()
			if n < 1 && c.Variant != "reattach-old-stays-open" {
				res.Violate("failed-connection-not-reported/"+c.Variant, "old 'a1' connection failed but the disconnect callback was not invoked")
			}
		}
	}
	// shutdown: cancel, then nothing of the proxy may be left
	gates.OpenAll()
	cancel()
	final, snap := quiet(tier)
	if !final {
		if res.Verdict == core.Held {
			res.Verdict, res.Note = core.Inconclusive, "no final state after cancel"
		}
	} else {
		select {
		case <-served:
		default:
			res.Violate("proxy-serve-does-not-return", "Proxy.Serve has not returned after its context was cancelled")
		}
		for _, g := range snap.Goat() {
			if g.Has("goat.(*proxyClient)") || g.Has("goat.(*Proxy)") {
				res.ViolateD("proxy-goroutine-left-after-cancel/"+firstGoatFrame(g.Frames), map[string]any{"left": goatParked(snap)},
					"after cancelling the proxy's context a proxy goroutine is still alive: [%s] %s (%s, cancel after step %d)", g.State, firstGoatFrame(g.Frames), c.Variant, c.CancelAt)
				break
			}
		}
		res.Stat("shutdowns_checked", 1)
	}
	for _, p := range []*c17Peer{a0, a1} {
		p.link.Kill()
	}
	bed.Uninstall()
	h.Fold(res)
	return res
}

func init() {
	core.Register(&core.Prop{
		ID:             "C17",
		Level:          "fault_enumeration",
		Rule:           "families: (source) a peer attached as a0 sends envelopes whose source is equal / different (claims a1; also a source that the proxy's address translation would map onto a0) / empty / whose header is absent (also from a peer attached under the empty name), then good ones; (isolation) a third peer in the role {stuck writer, failing reader, failing writer, dial error, dial blocking on a gate} while envelope-by-envelope traffic a0<->a1 must keep arriving; (reattach) a1 re-attached before / after the old connection's read (or write) fails; (cancel-busy) the context is cancelled while the serve loop is held inside the rewriting function or the disconnect callback and 2..8 peer read loops are waiting to hand it an envelope; each of the first three combined with cancellation of the proxy's context after every step (quick: 4 positions) and at the end, after which Serve must have returned and no goroutine with Proxy/proxyClient frames may remain at a final state. Each child runs one case (the proxy's goroutines must never leak into another case). Distinct = case tuples; all non-trivial.",
		Plan:           func(tier string, seed int64) int { return len(c17List(tier)) },
		ThoroughRounds: 8,
		Run:            c17Run,
		Exhaustive:     func(string) bool { return false },
		RequiredStats: func(string) []string {
			return []string{"hostile_source_envelopes", "healthy_envelopes_delivered", "failure_reports_checked", "reattach_checked", "shutdowns_checked", "hook:proxy.report", "cancel_while_serve_loop_busy"}
		},
	})
}

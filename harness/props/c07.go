package props

import (
	"context"
	"fmt"
	"io"
	"sync"
	"sync/atomic"

	"google.golang.org/grpc"
	"google.golang.org/grpc/codes"
	"google.golang.org/grpc/status"

	"goatverif/bed"
	"goatverif/core"
	"goatverif/svc"
	"goatverif/wire"
)

// C07: cancelling a streaming call cancels its handler and fails the caller's calls.

type c07Scn struct {
	Name   string `json:"name"`
	Kind   string `json:"kind"`
	M      int    `json:"unread_or_count"`
	Others int    `json:"other_calls"`
	Lmax   int    `json:"-"`
}

func c07Scenarios(tier string) []c07Scn {
	var out []c07Scn
	others := []int{0}
	if tier == "thorough" {
		others = []int{0, 2}
	}
	for _, o := range others {
		out = append(out,
			c07Scn{"bidi-pingpong", "bidi", 3, o, 10 + 2*o},
			c07Scn{"client-sendall", "client", 3, o, 8 + 2*o},
			c07Scn{"server-burst", "server", 3, o, 9 + 2*o},
			c07Scn{"bidi-halfclosed-handler-waits", "bidi", 2, o, 7 + 2*o},
			c07Scn{"server-handler-waits-after-k", "server", 2, o, 7 + 2*o},
		)
		ms := []int{0, 3, 5}
		if tier == "thorough" {
			ms = []int{0, 1, 2, 3, 4, 5}
		}
		for _, m := range ms {
			out = append(out, c07Scn{"bidi-unread-responses", "bidi", m, o, 3 + m + 2*o}, c07Scn{"server-unread-responses", "server", m, o, 5 + m + 2*o})
		}
	}
	if tier == "quick" {
		out = append(out, c07Scn{"bidi-pingpong", "bidi", 3, 2, 14}, c07Scn{"bidi-unread-responses", "bidi", 4, 2, 11})
	}
	return out
}

type c07Case struct {
	Scn  c07Scn `json:"scenario"`
	How  string `json:"how"` // cancel | deadline
	Pos  int    `json:"cancel_after_n_envelopes"`
	GMP  int    `json:"gomaxprocs"`
	Plan string `json:"hook_plan"`
}

func c07List(tier string) []c07Case {
	var out []c07Case
	i := 0
	for _, sc := range c07Scenarios(tier) {
		for _, how := range []string{"cancel", "deadline"} {
			for p := 0; p <= sc.Lmax; p++ {
				i++
				plans := []string{"none"}
				if tier == "thorough" {
					plans = []string{"none", "jitter"}
				}
				for _, pl := range plans {
					out = append(out, c07Case{sc, how, p, []int{1, 4, 16}[i%3], pl})
				}
			}
		}
	}
	// the same cancellations relayed by a proxy (first scenarios, a few positions)
	for si, sc := range c07Scenarios(tier) {
		if si >= 5 || sc.Others > 0 {
			continue
		}
		for _, how := range []string{"cancel", "deadline"} {
			for _, p := range []int{1, sc.Lmax / 2, sc.Lmax} {
				out = append(out, c07Case{sc, how, p, []int{1, 4, 16}[(si+p)%3], "proxy"})
			}
		}
	}
	// over the shipped websocket transport: the cancel lands while a send of the stream is half-way
	// onto the socket
	for k := 0; k < tierN(tier, 4, 24); k++ {
		out = append(out, c07Case{c07Scn{"websocket-send-half-written", "bidi", 1, 0, 0}, []string{"cancel", "deadline"}[k%2], 0, []int{4, 16, 2}[k%3], "none"})
	}
	for k := 0; k < tierN(tier, 2, 12); k++ {
		out = append(out, c07Case{c07Scn{"http-send-in-flight", "bidi", 1, 0, 0}, []string{"cancel", "deadline"}[k%2], 0, []int{4, 16}[k%2], "none"})
	}
	// a send issued after the cancellation while the stream's read loop has not ended the stream
	// yet, over a transport that takes a message on an ended context when it need not wait
	for k := 0; k < tierN(tier, 4, 24); k++ {
		out = append(out, c07Case{c07Scn{"send-after-cancel-read-loop-late", []string{"bidi", "client"}[k%2], 1, 0, 0}, []string{"cancel", "deadline"}[(k/2)%2], 0, []int{1, 4, 16}[k%3], "none"})
	}
	return out
}

func c07Progs(sc c07Scn) (cops, hops []Op) {
	switch sc.Name {
	case "bidi-pingpong":
		for i := 0; i < sc.M; i++ {
			cops = append(cops, Op{Op: "send", N: 1, Size: 17}, Op{Op: "recv", N: 1})
		}
		cops = append(cops, Op{Op: "closeSend"}, Op{Op: "recvAll"})
		hops = []Op{{Op: "echo"}}
	case "client-sendall":
		cops = []Op{{Op: "send", N: sc.M, Size: 17}, {Op: "closeSend"}, {Op: "recv", N: 1}, {Op: "recvAll"}}
		hops = []Op{{Op: "recvAll"}, {Op: "send", N: 1, Size: 17}}
	case "server-burst":
		cops = []Op{{Op: "recvAll"}}
		hops = []Op{{Op: "recv", N: 1}, {Op: "send", N: sc.M, Size: 17}}
	case "bidi-halfclosed-handler-waits":
		cops = []Op{{Op: "send", N: sc.M, Size: 17}, {Op: "closeSend"}, {Op: "recvAll"}}
		hops = []Op{{Op: "recvAll"}, {Op: "waitCtx"}, {Op: "ret", Err: context.Canceled}}
	case "server-handler-waits-after-k":
		cops = []Op{{Op: "recvAll"}}
		hops = []Op{{Op: "recv", N: 1}, {Op: "send", N: sc.M, Size: 17}, {Op: "waitCtx"}, {Op: "ret", Err: context.Canceled}}
	case "bidi-unread-responses":
		// the caller never reads; responses queue up; then the cancellation lands
		cops = []Op{{Op: "gate", Gate: "cancelled"}, {Op: "recvAll"}}
		if sc.M > 0 {
			hops = []Op{{Op: "send", N: sc.M, Size: 17}}
		}
		hops = append(hops, Op{Op: "waitCtx"}, Op{Op: "ret", Err: context.Canceled})
	case "server-unread-responses":
		cops = []Op{{Op: "gate", Gate: "cancelled"}, {Op: "recvAll"}}
		hops = []Op{{Op: "recv", N: 1}}
		if sc.M > 0 {
			hops = append(hops, Op{Op: "send", N: sc.M, Size: 17})
		}
		hops = append(hops, Op{Op: "waitCtx"}, Op{Op: "ret", Err: context.Canceled})
	}
	return
}

// c07SendAfterCancelLate: the caller cancels (or its deadline passes) and then sends, while the
// stream's read loop - the goroutine that ends the stream - is held just before it does so (a loaded
// machine does the same, rarely), over a link that completes a write on an ended context when it
// does not have to wait. "Its sends fail with the context's error": also then.
func c07SendAfterCancelLate(tier string, seed int64, idx int, c c07Case, res *core.Result) {
	res.NonTrivial = true
	setGMP(c.GMP)
	h := bed.NewHooks()
	parked := make(chan struct{}, 1)
	release := make(chan struct{})
	var armed atomic.Bool
	h.On("cs.readloop.exit", func(uint64) {
		if armed.Load() {
			select {
			case parked <- struct{}{}:
				<-release
			default:
			}
		}
	})
	h.Install()
	b := bed.New(bed.Opts{Cap: 8, Serialise: idx%2 == 0})
	b.Links[0].Eager = true
	tag := fmt.Sprintf("sacl%d", idx)
	b.Impl.SetStream(tag, func(t, k string, ss grpc.ServerStream) error {
		for ss.RecvMsg(new(svc.BV)) == nil {
		}
		return ss.Context().Err()
	})
	m := svc.NewManualCtx(context.Background())
	s, err := svc.Open(m, b.Conns[0], c.Scn.Kind, tag, nil)
	if err != nil {
		res.Verdict, res.Note = core.Inconclusive, "open failed: "+err.Error()
		close(release)
		finish(tier, b, h, res)
		return
	}
	s.Send([]byte("before"))
	quiet(tier)
	armed.Store(true)
	if c.How == "cancel" {
		m.Cancel()
	} else {
		m.Fire()
	}
	if st, _ := settle(tier, func() bool { return len(parked) > 0 }); st != "ok" {
		res.Verdict, res.Note = core.Inconclusive, "the read loop did not reach its exit hook: "+st
		close(release)
		finish(tier, b, h, res)
		return
	}
	var sendErr error
	done := make(chan struct{})
	go func() { defer close(done); sendErr = s.Send([]byte("late")) }()
	st, snap := settle(tier, func() bool {
		select {
		case <-done:
			return true
		default:
			return false
		}
	})
	close(release)
	if st == "stuck" {
		res.ViolateD("later-operation-hangs-after-cancel/"+c.Scn.Name, map[string]any{"goat_goroutines": goatParked(snap)}, "a SendMsg issued after the %s never returns", c.How)
	} else if st == "ok" && sendErr == nil {
		res.Violate("send-after-cancel-succeeds", "%s of a %s stream, then a SendMsg while the stream's read loop has not yet ended the stream (transport that takes a message on an ended context): the send returned nil", c.How, c.Scn.Kind)
	} else if st == "ok" {
		res.Stat("sends_after_cancel_before_read_loop_ended", 1)
	}
	quiet(tier)
	finish(tier, b, h, res)
}

func c07Run(tier string, seed int64, idx int) *core.Result {
	c := c07List(tier)[idx]
	res := &core.Result{Verdict: core.Held, Sample: c, Sig: fmt.Sprintf("%+v/%d", c, idx)}
	if c.Scn.Name == "http-send-in-flight" {
		c07HTTPCancel(tier, seed, idx, c, res)
		return res
	}
	if c.Scn.Name == "websocket-send-half-written" {
		c07WSCancel(tier, seed, idx, c, res)
		return res
	}
	if c.Scn.Name == "send-after-cancel-read-loop-late" {
		c07SendAfterCancelLate(tier, seed, idx, c, res)
		return res
	}
	setGMP(c.GMP)
	h := bed.NewHooks()
	if c.Plan == "jitter" {
		h.Jitter = uint64(seed)*7 + uint64(idx) + 3
	}
	h.Install()
	topo := ""
	if c.Plan == "proxy" {
		topo = "proxy" // client - proxy - Demux keyed by source - Serve: the reset has to find its way
		res.Stat("cancellations_through_proxy", 1)
	}
	b := bed.New(bed.Opts{Cap: idx % 2 * 2, Serialise: idx%3 == 0, Topology: topo})
	cc := b.Conns[0]
	gates := NewGates()
	tag := fmt.Sprintf("c7-%d", idx)
	cops, hops := c07Progs(c.Scn)
	hrec := &SideRec{}
	var hctxMu sync.Mutex
	var hctx context.Context
	b.Impl.SetStream(tag, func(t, k string, ss grpc.ServerStream) error {
		hctxMu.Lock()
		hctx = ss.Context()
		hctxMu.Unlock()
		return runHandlerProg(ss, t, hops, hrec, gates)
	})
	// other calls active on the connection: unary calls parked in their handlers
	otherGate := "others"
	var omu sync.Mutex
	odone := 0
	b.Impl.DefU = func(ctx context.Context, t string, req []byte) ([]byte, error) {
		if t != "probe" {
			gates.Wait(otherGate)
		}
		return req, nil
	}
	for i := 0; i < c.Scn.Others; i++ {
		go func(i int) {
			svc.Invoke(context.Background(), cc, fmt.Sprintf("other%d", i), []byte("o"))
			omu.Lock()
			odone++
			omu.Unlock()
		}(i)
	}
	if c.Scn.Others > 0 {
		quiet(tier) // their requests are on the wire before the stream starts: positions are stable
	}
	base := b.Links[0].Tap.Delivered()

	m := svc.NewManualCtx(context.Background())
	trigger := m.Cancel
	wantCode := codes.Canceled
	if c.How == "deadline" {
		trigger = m.Fire
		wantCode = codes.DeadlineExceeded
	}
	var fired bool
	var fmu sync.Mutex
	fire := func() {
		fmu.Lock()
		if !fired {
			fired = true
			fmu.Unlock()
			trigger()
			gates.Open("cancelled")
			return
		}
		fmu.Unlock()
	}
	b.Links[0].Tap.SetOnDelivered(func(n int, r *wire.Rec) {
		if n-base == c.Pos {
			fire()
		}
	})
	if c.Pos == 0 {
		fire()
	}
	cr := StartClient(m, m.Cancel, m.Fire, cc, c.Scn.Kind, tag, []byte("q"), cops, nil, gates, nil, nil)
	// stage 1: program runs until it ends or nothing moves
	st, snap := settle(tier, cr.IsDone)
	wasFired := func() bool { fmu.Lock(); defer fmu.Unlock(); return fired }
	if st == "stuck" && !wasFired() {
		// the position lies beyond this run's trace and the program is parked (unread-responses family waits
		// for the cancellation): nothing to check, let it go
		res.Stat("position_beyond_trace", 1)
		fire()
		st, snap = settle(tier, cr.IsDone)
	}
	if st == "stuck" {
		res.ViolateD("client-operation-hangs-after-cancel/"+c.Scn.Name, map[string]any{"goat_goroutines": goatParked(snap)},
			"%s at position %d of %s: a client operation never returns", c.How, c.Pos, c.Scn.Name)
	} else if st == "timeout" {
		res.Verdict, res.Note = core.Inconclusive, "watchdog"
	}
	if st == "ok" && wasFired() && cr.Stream != nil {
		// later operations on the stream
		var lrErr, lsErr error
		laterSend := false
		ldone := make(chan struct{})
		go func() {
			defer close(ldone)
			_, lrErr = cr.Stream.Recv()
			// later sends only where the API permits them and the handler consumes its input
			// (a body nobody reads would sit in front of the reset: head-of-line by design)
			halfClosed := false
			for _, e := range cr.Rec.Evs {
				if e.Op == "closeSend" {
					halfClosed = true // SendMsg after CloseSend is API misuse
				}
			}
			if (c.Scn.Name == "bidi-pingpong" || c.Scn.Name == "client-sendall") && !halfClosed {
				lsErr = cr.Stream.Send([]byte("late"))
				if lsErr == nil {
					lsErr = cr.Stream.Send([]byte("late2"))
				}
				laterSend = true
			}
		}()
		st2, snap2 := settle(tier, func() bool {
			select {
			case <-ldone:
				return true
			default:
				return false
			}
		})
		if st2 == "stuck" {
			res.ViolateD("later-operation-hangs-after-cancel/"+c.Scn.Name, map[string]any{"goat_goroutines": goatParked(snap2)},
				"%s at position %d of %s: a later RecvMsg/SendMsg on the cancelled stream never returns", c.How, c.Pos, c.Scn.Name)
		} else if st2 == "ok" {
			// the reset is written by the stream's read loop on its way out, possibly after the
			// caller's operations have returned: look at the wire only once nothing moves any more
			quiet(tier)
			// wire facts
			var id uint64
			opened, trailerS2C, resets := false, false, 0
			for _, e := range b.Links[0].Tap.Log() {
				if e.Dir == 0 {
					for _, kv := range e.Rpc.GetHeader().GetHeaders() {
						if kv.Key == svc.TagKey && kv.Value == tag {
							id = e.Rpc.GetId()
							opened = true
						}
					}
				}
			}
			for _, e := range b.Links[0].Tap.Log() {
				if e.Rpc.GetId() != id || !opened {
					continue
				}
				if e.Dir == 1 && e.Rpc.GetTrailer() != nil && e.Rpc.GetReset_() == nil {
					trailerS2C = true
				}
				if e.Dir == 0 && e.Rpc.GetReset_() != nil {
					resets++
				}
			}
			okRecv := status.Code(lrErr) == wantCode || (trailerS2C && lrErr == io.EOF)
			if lrErr == nil || !okRecv {
				res.Violate("receive-after-cancel-wrong-result/"+c.How, "%s at position %d of %s: a later RecvMsg returned %v (want status %v%s)", c.How, c.Pos, c.Scn.Name, lrErr, wantCode,
					map[bool]string{true: " or io.EOF, the stream had completed", false: ""}[trailerS2C])
			}
			if laterSend && lsErr == nil {
				res.Violate("send-after-cancel-succeeds", "%s at position %d of %s: sends on the cancelled stream keep succeeding", c.How, c.Pos, c.Scn.Name)
			}
			if resets > 1 {
				res.Violate("multiple-resets", "%d resets sent for one stream", resets)
			}
			if opened && !trailerS2C && resets != 1 {
				res.Violate("no-reset-sent-after-cancel/"+c.Scn.Name, "%s at position %d of %s: the stream was open, no trailer had been delivered, but %d resets were sent to the server", c.How, c.Pos, c.Scn.Name, resets)
			}
			res.Stat("cancellations_checked", 1)
			if resets == 1 {
				res.Stat("resets_observed", 1)
			}
			res.NonTrivial = true
		}
	} else if st == "ok" {
		res.Stat("stream_completed_or_failed_at_open", 1)
	}
	// the handler must not be left running with a live context
	final, snap3 := quiet(tier)
	if final && st == "ok" && wasFired() {
		hrec.mu.Lock()
		hd := hrec.Done
		hrec.mu.Unlock()
		hctxMu.Lock()
		hc := hctx
		hctxMu.Unlock()
		if hc != nil && !hd && hc.Err() == nil {
			res.ViolateD("handler-left-running-with-live-context/"+c.Scn.Name, map[string]any{"goat_goroutines": goatParked(snap3)},
				"%s at position %d of %s: in a final state the handler has not returned and its context is still live", c.How, c.Pos, c.Scn.Name)
		}
		if hc != nil {
			res.Stat("handler_contexts_checked", 1)
		}
	}
	// probe: the connection still works
	gates.Open(otherGate)
	pdone := make(chan error, 1)
	go func() { _, err := svc.Invoke(context.Background(), cc, "probe", []byte("p")); pdone <- err }()
	var perr error
	got := false
	stp, snapp := settle(tier, func() bool {
		select {
		case perr = <-pdone:
			got = true
			return true
		default:
			return got
		}
	})
	if stp == "stuck" {
		res.ViolateD("connection-wedged-after-cancel/"+c.Scn.Name, map[string]any{"goat_goroutines": goatParked(snapp)}, "%s at position %d of %s: a probe call afterwards never completes", c.How, c.Pos, c.Scn.Name)
	} else if stp == "ok" && perr != nil {
		res.Violate("probe-fails-after-cancel", "probe failed: %v", perr)
	}
	res.Stat("positions_enumerated", 1)
	m.Cancel()
	gates.OpenAll()
	finish(tier, b, h, res)
	return res
}

func init() {
	core.Register(&core.Prop{
		ID:             "C07",
		Level:          "fault_enumeration",
		Rule:           "scenarios = 7 program pairs over the 3 streaming kinds (ping-pong, send-all, burst, handler waiting after half-close / after k messages, 0..5 responses queued unread) x {alone, 2 other calls active (thorough; two quick scenarios)}; the cancellation (explicit cancel or manual deadline expiry) is placed after EVERY prefix of the wire trace (tap callback on the n-th delivered envelope, n = 0..trace length). Checked at final states: every pending and later operation returned, later RecvMsg gives Canceled/DeadlineExceeded (or io.EOF only if the stream's trailer is on the wire), later sends fail, exactly one reset went out unless the trailer had been delivered, the handler is not left running with a live context, a probe call succeeds. Non-trivial = the cancellation landed while the stream was open; distinct = (scenario, how, position, plan). Plus families over the shipped transports: (websocket, loopback sockets with stalling writes) cancel / deadline while a 64 KiB send of the stream is half-way onto the socket - the send returns, later receives carry the context's status, the handler's context ends, hangs judged at final states of the socket scenario; (HTTP, two instances behind loopback servers) cancel / deadline while the POST of a send is held in front of the server endpoint - the handler's context must end within 20 s. Plus (quick 4, thorough 24) a SendMsg issued after the cancel / deadline while the stream's read loop is held just before it ends the stream, over a link that completes writes on an ended context: the send must fail.",
		Plan:           func(tier string, seed int64) int { return len(c07List(tier)) },
		ThoroughRounds: 8,
		Run:            c07Run,
		Exhaustive:     func(string) bool { return true },
		RequiredStats: func(string) []string {
			return []string{"cancellations_checked", "resets_observed", "handler_contexts_checked", "stream_completed_or_failed_at_open", "ws_cancel_mid_write_cases", "http_cancel_during_send_cases", "cancellations_through_proxy", "sends_after_cancel_before_read_loop_ended"}
		},
		Assumptions: []string{"HTTP family: no final-state argument over net/http; 20 s on loopback without the reset arriving is taken as never", "exhaustive = every cancel position of every scenario's wire trace; schedules between positions are sampled"},
	})
}

package props

import (
	"context"
	"fmt"
	"io"
	"sync"

	goat "github.com/avos-io/goat"
	"github.com/avos-io/goat/gen/goatorepo"
	"google.golang.org/grpc"
	"google.golang.org/protobuf/proto"

	"goatverif/bed"
	"goatverif/core"
	"goatverif/svc"
	"goatverif/wire"
)

// C16: a proxy delivers each accepted envelope once, in order, to the right peer.

type c16Case struct {
	Family   string `json:"family"` // envelopes | rpc-c01 | rpc-c02 | burst-stream | burst-unary
	Index    int    `json:"index,omitempty"`
	Attached int    `json:"attached_peers,omitempty"`
	Dialable int    `json:"dialable_peers,omitempty"`
	Rewrite  string `json:"rewrite,omitempty"` // none | identity | alias | block-some
	PerSrc   int    `json:"envelopes_per_source,omitempty"`
	GMP      int    `json:"gomaxprocs,omitempty"`
}

func c16List(tier string) []c16Case {
	var out []c16Case
	ne := tierN(tier, 24, 400)
	for i := 0; i < ne; i++ {
		out = append(out, c16Case{Family: "envelopes", Index: i, Attached: 1 + i%8, Dialable: i % 5, Rewrite: []string{"none", "identity", "alias", "block-some"}[i%4], PerSrc: tierN(tier, 60, 300), GMP: []int{1, 4, 16}[i%3]})
	}
	for i := 0; i < tierN(tier, 12, 300); i++ {
		out = append(out, c16Case{Family: "rpc-c01", Index: 4*i + 2})
	}
	for i := 0; i < tierN(tier, 40, 1000); i++ {
		out = append(out, c16Case{Family: "rpc-c02", Index: i})
	}
	for i := 0; i < tierN(tier, 8, 80); i++ {
		out = append(out, c16Case{Family: "redial", Index: i, GMP: []int{1, 4, 16}[i%3]})
	}
	for i := 0; i < tierN(tier, 6, 48); i++ {
		out = append(out, c16Case{Family: "refused-request", Index: i, GMP: []int{1, 4, 16}[i%3]})
	}
	for i := 0; i < tierN(tier, 8, 30); i++ {
		out = append(out, c16Case{Family: "rpc-c07", Index: i})
	}
	for i := 0; i < tierN(tier, 12, 120); i++ {
		out = append(out, c16Case{Family: "refail", Index: i, Rewrite: []string{"reattach-then-old-fails", "write-fault-while-serve-loop-busy", "read-fault-while-serve-loop-busy", "reattach-while-old-stays-open", "write-only-fault-reported-while-serve-loop-busy"}[i%5], GMP: []int{1, 4, 16}[i%3]})
	}
	for i := 0; i < tierN(tier, 10, 100); i++ {
		out = append(out, c16Case{Family: "burst-stream", Index: i})
		out = append(out, c16Case{Family: "burst-unary", Index: i})
	}
	return out
}

type c16Peer struct {
	name string
	link *wire.Link
	mu   sync.Mutex
	got  []*wire.Rpc
}

func c16Run(tier string, seed int64, idx int) *core.Result {
	c := c16List(tier)[idx]
	res := &core.Result{Verdict: core.Held, Sample: c, Sig: fmt.Sprintf("%+v", c), NonTrivial: true}
	switch c.Family {
	case "envelopes":
		c16Envelopes(tier, seed, idx, c, res)
	case "rpc-c01", "rpc-c02", "rpc-c07":
		var sub *core.Result
		if c.Family == "rpc-c01" {
			sub = c01Run(tier, seed, c.Index) // index = 2 mod 4: proxy topology
		} else if c.Family == "rpc-c07" {
			// cancelled streaming calls relayed by the proxy: the C07 cases with the proxy plan
			k, at := 0, -1
			for j, cs := range c07List(tier) {
				if cs.Plan == "proxy" {
					if k == c.Index {
						at = j
					}
					k++
				}
			}
			if at < 0 {
				return res
			}
			sub = c07Run(tier, seed, at)
		} else {
			sub = c02RunTopo(tier, seed, c.Index, "proxy")
		}
		res.Retire = sub.Retire
		res.Verdict = sub.Verdict
		res.Note = sub.Note
		for _, v := range sub.Violations {
			res.Violations = append(res.Violations, core.Violation{Key: "rpc-through-proxy/" + v.Key, Msg: "RPC workload through client-proxy-demux-serve: " + v.Msg, Detail: v.Detail})
		}
		res.Stat("rpc_workload_cases_through_proxy", 1)
		for k, v := range sub.Stats {
			if k == "calls" || k == "streams" || k == "hook:proxy.forward" || k == "hook:proxy.drop" {
				res.Stat(k, v)
			}
		}
		if sub.Stats["hook:proxy.drop"] > 0 {
			res.Violate("drop-in-bounded-rpc-workload", "the proxy dropped %d envelopes in a workload that keeps at most 12 outstanding per destination", sub.Stats["hook:proxy.drop"])
		}
	case "burst-stream", "burst-unary":
		c16Burst(tier, seed, idx, c, res)
	case "redial":
		c16Redial(tier, seed, idx, c, res)
	case "refail":
		c16Refail(tier, seed, idx, c, res)
	case "refused-request":
		c16Refused(tier, seed, idx, c, res)
	}
	return res
}

// c16Refused: requests the server refuses on its own (undecodable request metadata) are answered with an error reply; through client - proxy - Demux - Serve
// that reply must come back to the requesting peer exactly as it does on a direct connection.
func c16Refused(tier string, seed int64, idx int, c c16Case, res *core.Result) {
	setGMP(c.GMP)
	h := bed.NewHooks()
	h.Install()
	b := bed.New(bed.Opts{Topology: "proxy", Clients: 1, Cap: []int{0, 4}[c.Index%2], Serialise: c.Index%4 < 2})
	ctx, cancel := context.WithCancel(context.Background())
	defer cancel()
	l := wire.NewLink(4, c.Index%2 == 0)
	var mu sync.Mutex
	got := map[uint64]*wire.Rpc{}
	wire.NewPeer(ctx, l.A, func(_ *wire.Peer, in *wire.Rpc) {
		mu.Lock()
		got[in.GetId()] = proto.Clone(in).(*wire.Rpc)
		mu.Unlock()
	})
	b.Proxy.AddClient("x0", l.B)
	body, _ := proto.Marshal(&svc.BV{Value: []byte("q")})
	mk := func(id uint64, method string, kv ...*goatorepo.KeyValue) *wire.Rpc {
		return &wire.Rpc{Id: id, Header: &goatorepo.RequestHeader{Method: method, Source: "x0", Destination: "srv", Headers: kv}, Body: &goatorepo.Body{Data: body}}
	}
	reqs := []*wire.Rpc{
		mk(1, svc.MUnary, &goatorepo.KeyValue{Key: "x-bin", Value: "!!!not base64!!!"}),
		mk(2, svc.MUnary2, &goatorepo.KeyValue{Key: "y-bin", Value: "%%%"}),
		mk(3, svc.MUnary, &goatorepo.KeyValue{Key: svc.TagKey, Value: "fine"}),
	}
	for _, e := range reqs {
		done := make(chan error, 1)
		go func() { done <- l.A.Write(ctx, e) }()
		settle(tier, func() bool { return len(done) > 0 })
	}
	st, snap := settle(tier, func() bool { mu.Lock(); defer mu.Unlock(); return len(got) == len(reqs) })
	mu.Lock()
	if st == "stuck" {
		var missing []uint64
		for _, e := range reqs {
			if got[e.GetId()] == nil {
				missing = append(missing, e.GetId())
			}
		}
		res.ViolateD("reply-lost-through-proxy", map[string]any{"goat_goroutines": goatParked(snap)}, "requests %v (1, 2 = undecodable request metadata, 3 = valid) sent through the proxy were never answered: the server's reply did not come back (final state)", missing)
	} else if st == "ok" {
		for id, g := range got {
			if g.GetHeader().GetDestination() != "x0" || g.GetHeader().GetSource() != "srv" {
				res.Violate("reply-routing-fields-wrong", "reply %d arrived with source %q destination %q", id, g.GetHeader().GetSource(), g.GetHeader().GetDestination())
			}
			if id < 3 && g.GetStatus().GetCode() == 0 {
				res.Violate("refused-request-answered-ok", "request %d must be refused, the reply carries no error status", id)
			}
		}
		res.Stat("refused_request_cases", 1)
	} else {
		res.Verdict, res.Note = core.Inconclusive, "watchdog"
	}
	mu.Unlock()
	cancel()
	l.Kill()
	finish(tier, b, h, res)
}

// c16Refail: delivery to "the peer named by the destination" around connection failures:
// (a) a peer re-attaches under its name and the superseded connection fails afterwards: envelopes
// must keep reaching the new connection; (b) a dialled peer's connection fails (write or read
// fault) while the proxy's serve loop is busy inside the rewriting function: the failure must still
// be registered, so that later envelopes for that name reach a freshly dialled connection.
func c16Refail(tier string, seed int64, idx int, c c16Case, res *core.Result) {
	setGMP(c.GMP)
	h := bed.NewHooks()
	reportGo := make(chan struct{})
	reportParked := make(chan struct{}, 4)
	if c.Rewrite == "write-only-fault-reported-while-serve-loop-busy" {
		// the peer loop that noticed the failure gets to report it only once the serve loop is busy
		h.On("proxy.report", func(uint64) {
			select {
			case reportParked <- struct{}{}:
			default:
			}
			<-reportGo
		})
	}
	h.Install()
	ctx, cancel := context.WithCancel(context.Background())
	defer cancel()
	gates := NewGates()
	var mu sync.Mutex
	var dialled []*c16Peer
	mk := func(name string) *c16Peer {
		p := &c16Peer{name: name, link: wire.NewLink(1, c.Index%2 == 0)}
		wire.NewPeer(ctx, p.link.A, func(_ *wire.Peer, in *wire.Rpc) {
			p.mu.Lock()
			p.got = append(p.got, proto.Clone(in).(*wire.Rpc))
			p.mu.Unlock()
		})
		return p
	}
	px := goat.NewProxy(ctx, "px", func(id string) (goat.RpcReadWriter, error) {
		p := mk(id)
		mu.Lock()
		dialled = append(dialled, p)
		mu.Unlock()
		return p.link.B, nil
	}, func(hd *goatorepo.RequestHeader) error {
		if hd.Destination == "hold" {
			gates.Wait("serve-loop")
			return fmt.Errorf("dropped")
		}
		return nil
	}, nil)
	a0, b0 := mk("a0"), mk("b")
	px.AddClient("a0", a0.link.B)
	go px.Serve()
	count := func(p *c16Peer) int { p.mu.Lock(); defer p.mu.Unlock(); return len(p.got) }
	send := func(dst string, n int) bool {
		e := &wire.Rpc{Id: uint64(n), Header: &goatorepo.RequestHeader{Method: "/x/y", Source: "a0", Destination: dst}, Body: &goatorepo.Body{Data: []byte{byte(n)}}}
		done := make(chan error, 1)
		go func() { done <- a0.link.A.Write(ctx, e) }()
		st, _ := settle(tier, func() bool { return len(done) > 0 })
		return st == "ok"
	}
	arrives := func(p func() *c16Peer, before int, what string) bool {
		st, snap := settle(tier, func() bool { q := p(); return q != nil && count(q) > before })
		if st == "stuck" {
			res.ViolateD("envelope-not-delivered-to-named-peer/"+c.Rewrite, map[string]any{"goat_goroutines": goatParked(snap)}, "%s: the envelope never reaches the peer currently attached / dialable under that name", what)
			return false
		}
		return st == "ok"
	}
	switch c.Rewrite {
	case "reattach-while-old-stays-open":
		px.AddClient("b", b0.link.B)
		send("b", 1)
		if !arrives(func() *c16Peer { return b0 }, 0, "first envelope to b") {
			break
		}
		b1 := mk("b")
		px.AddClient("b", b1.link.B) // b re-attaches; its earlier connection is still open
		quiet(tier)
		for n := 2; n < 8; n++ {
			before := count(b1)
			send("b", n)
			if !arrives(func() *c16Peer { return b1 }, before, fmt.Sprintf("envelope %d to the re-attached b (old connection still open)", n)) {
				break
			}
		}
		if k := count(b0); k != 1 {
			res.Violate("envelope-delivered-to-stale-connection", "after b re-attached, %d envelopes addressed to b were written to its earlier connection", k-1)
		}
	case "reattach-then-old-fails":
		px.AddClient("b", b0.link.B)
		send("b", 1)
		if !arrives(func() *c16Peer { return b0 }, 0, "first envelope to b") {
			break
		}
		b1 := mk("b")
		px.AddClient("b", b1.link.B) // b re-attaches
		quiet(tier)
		b0.link.B.FailRead() // ... and only then the old connection fails
		quiet(tier)
		for n := 2; n < 5; n++ {
			before := count(b1)
			send("b", n)
			if !arrives(func() *c16Peer { return b1 }, before, fmt.Sprintf("envelope %d to the re-attached b", n)) {
				break
			}
		}
		mu.Lock()
		if len(dialled) > 0 {
			res.Violate("proxy-dials-although-peer-is-attached", "the proxy dialled %q although a connection was attached under that name", dialled[0].name)
		}
		mu.Unlock()
	default:
		// "d" is dialled on demand; then its connection faults while the serve loop is held
		send("d", 1)
		if !arrives(func() *c16Peer {
			mu.Lock()
			defer mu.Unlock()
			if len(dialled) > 0 {
				return dialled[0]
			}
			return nil
		}, 0, "first envelope to the dialled peer") {
			break
		}
		mu.Lock()
		d0 := dialled[0]
		mu.Unlock()
		if c.Rewrite == "write-only-fault-reported-while-serve-loop-busy" {
			// only the write side fails (the read side stays idle), on the next envelope for d
			d0.link.B.FailWrite()
			send("d", 2)
			settle(tier, func() bool { return len(reportParked) > 0 })
		}
		go a0.link.A.Write(ctx, &wire.Rpc{Id: 900, Header: &goatorepo.RequestHeader{Method: "/x/y", Source: "a0", Destination: "hold"}})
		settle(tier, func() bool { return gates.Reached("serve-loop") })
		if c.Rewrite == "write-only-fault-reported-while-serve-loop-busy" {
			close(reportGo)
		} else if c.Rewrite == "write-fault-while-serve-loop-busy" {
			d0.link.B.FailWrite()
			d0.link.B.FailRead()
		} else {
			d0.link.B.FailRead()
		}
		quiet(tier)
		gates.Open("serve-loop")
		quiet(tier)
		// the failed connection must be gone: the next envelopes go to a fresh dial
		for n := 3; n < 6; n++ {
			send("d", n)
			quiet(tier)
		}
		mu.Lock()
		nd := len(dialled)
		var d1 *c16Peer
		if nd > 1 {
			d1 = dialled[nd-1]
		}
		mu.Unlock()
		if d1 == nil || count(d1) == 0 {
			res.Violate("envelopes-lost-after-connection-failure/"+c.Rewrite, "the dialled peer's connection failed while the serve loop was busy; afterwards 3 envelopes for that name were sent but none reached a freshly dialled connection (%d dials in all)", nd)
		}
	}
	res.Stat("refail_cases", 1)
	gates.OpenAll()
	cancel()
	bed.Hygiene(watchdog(tier))
	bed.Uninstall()
	h.Fold(res)
	res.Retire = true
}

// c16Redial: "dialling that peer on demand" must also hold after a dial that failed: the first
// f dials of a name fail, later ones succeed; envelopes sent after the failure was reported must
// be delivered (a fresh dial), in order.
func c16Redial(tier string, seed int64, idx int, c c16Case, res *core.Result) {
	setGMP(c.GMP)
	h := bed.NewHooks()
	h.Install()
	ctx, cancel := context.WithCancel(context.Background())
	defer cancel()
	fails := 1 + c.Index%3
	var mu sync.Mutex
	dials, reported := 0, 0
	var target *c16Peer
	mk := func(name string) *c16Peer {
		p := &c16Peer{name: name, link: wire.NewLink(c.Index%2, c.Index%2 == 0)}
		wire.NewPeer(ctx, p.link.A, func(_ *wire.Peer, in *wire.Rpc) {
			p.mu.Lock()
			p.got = append(p.got, proto.Clone(in).(*wire.Rpc))
			p.mu.Unlock()
		})
		return p
	}
	px := goat.NewProxy(ctx, "px", func(id string) (goat.RpcReadWriter, error) {
		mu.Lock()
		defer mu.Unlock()
		dials++
		if dials <= fails {
			return nil, fmt.Errorf("dial %d of %q fails", dials, id)
		}
		target = mk(id)
		return target.link.B, nil
	}, nil, func(id string, reason error) {
		mu.Lock()
		reported++
		mu.Unlock()
	})
	a0 := mk("a0")
	px.AddClient("a0", a0.link.B)
	go px.Serve()
	send := func(n int) bool {
		e := &wire.Rpc{Id: uint64(n), Header: &goatorepo.RequestHeader{Method: "/x/y", Source: "a0", Destination: "flaky"}, Body: &goatorepo.Body{Data: []byte{byte(n)}}}
		done := make(chan error, 1)
		go func() { done <- a0.link.A.Write(ctx, e) }()
		st, _ := settle(tier, func() bool { return len(done) > 0 })
		return st == "ok"
	}
	n := 0
	// one envelope per failing dial; each is lost with its failed dial (there is nowhere to deliver it)
	for f := 0; f < fails; f++ {
		n++
		if !send(n) {
			res.Verdict, res.Note = core.Inconclusive, "proxy does not take envelopes"
			return
		}
		want := f + 1
		if st, _ := settle(tier, func() bool { mu.Lock(); defer mu.Unlock(); return reported >= want }); st != "ok" {
			res.Violate("dial-error-not-reported", "dial %d failed but the disconnect callback was not invoked", f+1)
			break
		}
		quiet(tier)
	}
	// now the peer is dialable: these must arrive, in order, through a fresh dial
	first := n + 1
	for k := 0; k < 5; k++ {
		n++
		if !send(n) {
			res.Violate("proxy-stops-reading-after-failed-dial", "the proxy no longer takes envelopes after a failed dial")
			break
		}
	}
	st, snap := settle(tier, func() bool {
		mu.Lock()
		t := target
		mu.Unlock()
		if t == nil {
			return false
		}
		t.mu.Lock()
		defer t.mu.Unlock()
		return len(t.got) >= 5
	})
	if st == "stuck" {
		mu.Lock()
		d := dials
		mu.Unlock()
		res.ViolateD("envelopes-lost-after-failed-dial", map[string]any{"dials": d, "goat_goroutines": goatParked(snap)}, "after %d failed dial(s) of a peer, envelopes sent once it is dialable never arrive (%d dial attempts in all)", fails, d)
	} else if st == "ok" {
		target.mu.Lock()
		for i, g := range target.got {
			if g.GetId() != uint64(first+i) {
				res.Violate("redial-order", "envelope %d after the re-dial has id %d, want %d", i, g.GetId(), first+i)
				break
			}
		}
		target.mu.Unlock()
		res.Stat("redial_cases", 1)
	} else {
		res.Verdict, res.Note = core.Inconclusive, "watchdog"
	}
	cancel()
	bed.Hygiene(watchdog(tier))
	bed.Uninstall()
	h.Fold(res)
	res.Retire = true
}

func c16Envelopes(tier string, seed int64, idx int, c c16Case, res *core.Result) {
	r := rng(seed, idx, "c16")
	setGMP(c.GMP)
	h := bed.NewHooks()
	h.Jitter = uint64(seed)*5 + uint64(idx) + 1
	var dmu sync.Mutex
	droppedIDs := map[uint64]int{}
	h.On("proxy.drop", func(id uint64) { dmu.Lock(); droppedIDs[id]++; dmu.Unlock() })
	fwdIDs := map[uint64]int{}
	h.On("proxy.forward", func(id uint64) { dmu.Lock(); fwdIDs[id]++; dmu.Unlock() })
	h.Install()
	ctx, cancel := context.WithCancel(context.Background())
	peers := map[string]*c16Peer{}
	var pmu sync.Mutex
	credit := map[string]chan struct{}{}
	newPeer := func(name string) *c16Peer {
		p := &c16Peer{name: name, link: wire.NewLink(idx%3, idx%2 == 0)}
		pmu.Lock()
		peers[name] = p
		if credit[name] == nil {
			credit[name] = make(chan struct{}, 12)
		}
		cr := credit[name]
		pmu.Unlock()
		wire.NewPeer(ctx, p.link.A, func(_ *wire.Peer, in *wire.Rpc) {
			p.mu.Lock()
			p.got = append(p.got, proto.Clone(in).(*wire.Rpc))
			p.mu.Unlock()
			select {
			case <-cr:
			default:
			}
		})
		return p
	}
	var names []string
	for i := 0; i < c.Attached; i++ {
		names = append(names, fmt.Sprintf("a%d", i))
	}
	var dialNames []string
	for i := 0; i < c.Dialable; i++ {
		dialNames = append(dialNames, fmt.Sprintf("d%d", i))
		credit[fmt.Sprintf("d%d", i)] = make(chan struct{}, 12) // exists before the peer is dialled
	}
	var rewrite goat.RpcIntercepter
	alias := map[string]string{}
	switch c.Rewrite {
	case "identity":
		rewrite = func(h *goatorepo.RequestHeader) error { return nil }
	case "alias":
		for _, n := range append(append([]string{}, names...), dialNames...) {
			alias["alias-"+n] = n
		}
		rewrite = func(h *goatorepo.RequestHeader) error {
			if real, ok := alias[h.Destination]; ok {
				h.Destination = real
			}
			return nil
		}
	case "block-some":
		rewrite = func(h *goatorepo.RequestHeader) error {
			if h.Destination == "blocked" {
				return fmt.Errorf("blocked")
			}
			return nil
		}
	}
	dials := map[string]int{}
	px := goat.NewProxy(ctx, "px", func(id string) (goat.RpcReadWriter, error) {
		pmu.Lock()
		dials[id]++
		pmu.Unlock()
		for _, n := range dialNames {
			if n == id {
				return newPeer(id).link.B, nil
			}
		}
		return nil, fmt.Errorf("cannot dial %q", id)
	}, rewrite, nil)
	for _, n := range names {
		px.AddClient(n, newPeer(n).link.B)
	}
	go px.Serve()

	// senders
	type sentRec struct {
		rpc  *wire.Rpc
		dest string // final peer name, "" if it must not be delivered
	}
	sent := map[string][]sentRec{} // by source
	var smu sync.Mutex
	var wg sync.WaitGroup
	allDest := append(append([]string{}, names...), dialNames...)
	for si, src := range names {
		wg.Add(1)
		sr := rng(seed, idx*100+si, "c16src")
		go func(src string, si int) {
			defer wg.Done()
			pmu.Lock()
			p := peers[src]
			pmu.Unlock()
			for n := 0; n < c.PerSrc; n++ {
				dst := allDest[sr.Intn(len(allDest))]
				hd := &goatorepo.RequestHeader{Method: "/x/y", Source: src, Destination: dst,
					Headers: []*goatorepo.KeyValue{{Key: "n", Value: fmt.Sprint(n)}}}
				final := dst
				switch sr.Intn(12) {
				case 0:
					hd.Destination, final = "nobody", ""
				case 1:
					if c.Rewrite == "block-some" {
						hd.Destination, final = "blocked", ""
					}
				case 2:
					if c.Rewrite == "alias" {
						hd.Destination = "alias-" + dst
					}
				case 3:
					// a route to follow: the last element of ProxyNext wins over Destination
					other := allDest[sr.Intn(len(allDest))]
					hd.ProxyNext = []string{"hop-before", other}
					final = other
				case 4:
					hd.ProxyRecord = []string{"earlier-proxy"}
				}
				e := &wire.Rpc{Id: uint64(si)<<32 | uint64(n), Header: hd, Body: &goatorepo.Body{Data: payload(sr, sr.Intn(64))}}
				if sr.Intn(5) == 0 {
					e.Trailer = &goatorepo.Trailer{Metadata: []*goatorepo.KeyValue{{Key: "t", Value: "v"}}}
					e.Status = &goatorepo.ResponseStatus{Code: int32(sr.Intn(17)), Message: "m"}
				}
				if final != "" {
					// credit: at most 12 envelopes outstanding per destination (below the proxy's 16-slot buffer)
					pmu.Lock()
					cr := credit[final]
					pmu.Unlock()
					if cr == nil {
						// a dialable peer not yet dialled: its credit channel appears with the dial
						pmu.Lock()
						credit[final] = make(chan struct{}, 12)
						cr = credit[final]
						pmu.Unlock()
					}
					select {
					case cr <- struct{}{}:
					case <-ctx.Done():
						return
					}
				}
				smu.Lock()
				sent[src] = append(sent[src], sentRec{proto.Clone(e).(*wire.Rpc), final})
				smu.Unlock()
				if err := p.link.A.Write(ctx, e); err != nil {
					return
				}
			}
		}(src, si)
	}
	_ = r
	sendersDone := make(chan struct{})
	go func() { wg.Wait(); close(sendersDone) }()
	expected := func() bool {
		select {
		case <-sendersDone:
		default:
			return false
		}
		smu.Lock()
		defer smu.Unlock()
		want := map[string]int{}
		for _, rs := range sent {
			for _, s := range rs {
				if s.dest != "" {
					want[s.dest]++
				}
			}
		}
		pmu.Lock()
		defer pmu.Unlock()
		for d, n := range want {
			p := peers[d]
			if p == nil {
				return false
			}
			p.mu.Lock()
			g := len(p.got)
			p.mu.Unlock()
			if g < n {
				return false
			}
		}
		return true
	}
	st, snap := settle(tier, expected)
	if st == "timeout" {
		res.Verdict, res.Note = core.Inconclusive, "watchdog"
	}
	quiet(tier)
	// drops of envelopes that can never be delivered (undialable destination: they pile up in the
	// entry created for the dial until the dial error removes it) are not losses
	smu.Lock()
	deliverable := map[uint64]bool{}
	descr := map[uint64]string{}
	for _, rs := range sent {
		for _, s := range rs {
			if s.dest != "" {
				deliverable[s.rpc.GetId()] = true
				descr[s.rpc.GetId()] = fmt.Sprintf("%s->%s(final %s, next %v)", s.rpc.GetHeader().GetSource(), s.rpc.GetHeader().GetDestination(), s.dest, s.rpc.GetHeader().GetProxyNext())
			}
		}
	}
	smu.Unlock()
	var drops int64
	var dropDescr []string
	dmu.Lock()
	for id, n := range droppedIDs {
		if deliverable[id] {
			drops += int64(n)
			dropDescr = append(dropDescr, fmt.Sprintf("%s fwd=%d", descr[id], fwdIDs[id]))
		} else {
			res.Stat("drops_of_undeliverable_envelopes", int64(n))
		}
	}
	dmu.Unlock()
	// oracle
	smu.Lock()
	pmu.Lock()
	total := 0
	for _, dstName := range allDest {
		p := peers[dstName]
		var got []*wire.Rpc
		if p != nil {
			p.mu.Lock()
			got = append(got, p.got...)
			p.mu.Unlock()
		}
		// per (source, destination) pair: delivered sequence == sent sequence
		bySrc := map[string][]*wire.Rpc{}
		for _, g := range got {
			bySrc[g.GetHeader().GetSource()] = append(bySrc[g.GetHeader().GetSource()], g)
		}
		for _, src := range names {
			var want []*wire.Rpc
			for _, s := range sent[src] {
				if s.dest == dstName {
					w := proto.Clone(s.rpc).(*wire.Rpc)
					w.Header.ProxyRecord = append(w.Header.ProxyRecord, "px")
					if len(w.Header.ProxyNext) > 0 {
						w.Header.ProxyNext = w.Header.ProxyNext[:len(w.Header.ProxyNext)-1]
						if len(w.Header.ProxyNext) == 0 {
							w.Header.ProxyNext = nil
						}
					}
					if real, ok := alias[w.Header.Destination]; ok {
						w.Header.Destination = real
					}
					want = append(want, w)
				}
			}
			g := bySrc[src]
			total += len(g)
			n := len(want)
			if len(g) < n {
				n = len(g)
			}
			for i := 0; i < n; i++ {
				if g[i].GetId() != want[i].GetId() {
					res.Violate("proxy-reorders-or-duplicates", "pair %s->%s: delivered envelope %d has id %#x, sent order has %#x there", src, dstName, i, g[i].GetId(), want[i].GetId())
					break
				}
				gi := proto.Clone(g[i]).(*wire.Rpc)
				if len(gi.Header.ProxyNext) == 0 {
					gi.Header.ProxyNext = nil
				}
				if !proto.Equal(gi, want[i]) {
					res.Violate("proxy-alters-envelope", "pair %s->%s envelope %#x differs beyond routing fields: got header %v want %v", src, dstName, gi.GetId(), gi.GetHeader(), want[i].GetHeader())
					break
				}
			}
			if len(g) != len(want) && len(res.Violations) == 0 {
				key := "proxy-loses-envelope"
				if len(g) > len(want) {
					key = "proxy-duplicates-or-misroutes-envelope"
				}
				res.ViolateD(key, map[string]any{"drops_counted": drops, "goat_goroutines": goatParked(snap)}, "pair %s->%s: %d envelopes delivered, %d sent (proxy.drop fired %d times; state %s)", src, dstName, len(g), len(want), drops, st)
			}
		}
		// nothing from unexpected sources
		for s := range bySrc {
			known := false
			for _, n := range names {
				if n == s {
					known = true
				}
			}
			if !known {
				res.Violate("proxy-delivers-foreign-source", "%s received an envelope with source %q", dstName, s)
			}
		}
	}
	for name, n := range dials {
		isDialable := false
		for _, d := range dialNames {
			if d == name {
				isDialable = true
			}
		}
		if n > 1 && isDialable {
			res.Violate("proxy-dials-peer-twice", "peer %q dialled %d times", name, n)
		}
	}
	pmu.Unlock()
	smu.Unlock()
	if drops > 0 {
		res.Violate("drop-in-bounded-envelope-workload", "the proxy dropped %d envelopes although at most 12 were outstanding per destination: %v", drops, dropDescr)
	}
	res.Stat("envelopes_delivered_and_compared", int64(total))
	res.Stat("source_destination_pairs", int64(len(names)*len(allDest)))
	res.Evals = int64(total)
	cancel()
	for _, p := range peers {
		p.link.Kill()
	}
	bed.Hygiene(watchdog(tier))
	bed.Uninstall()
	h.Fold(res)
	res.Retire = true // proxy goroutines may outlive the context (see C17); never share the process with later cases
}

// c16Burst: above the proxy's per-destination buffer. Loss must be exactly what the drop hook counted,
// never a reorder/duplicate/alteration; a stream that ends with io.EOF short of messages is the known finding.
func c16Burst(tier string, seed int64, idx int, c c16Case, res *core.Result) {
	h := bed.NewHooks()
	h.Install()
	b := bed.New(bed.Opts{Topology: "proxy", Cap: 0})
	cc := b.Conns[0]
	n := 50
	if c.Family == "burst-stream" {
		tag := fmt.Sprintf("burst%d", idx)
		hrec := &SideRec{}
		gates := NewGates()
		b.Impl.SetStream(tag, func(t, k string, ss grpc.ServerStream) error {
			return runHandlerProg(ss, t, []Op{{Op: "recv", N: 1}, {Op: "send", N: n, Size: 17}}, hrec, gates)
		})
		var got [][]byte
		var end error
		done := make(chan struct{})
		go func() {
			defer close(done)
			s, err := svc.Open(context.Background(), cc, "server", tag, []byte("q"))
			if err != nil {
				end = err
				return
			}
			gates.Wait("receiver-starts") // a receiver slower than the sender: the burst backs up into the proxy
			for {
				m, err := s.Recv()
				if err != nil {
					end = err
					return
				}
				got = append(got, m)
			}
		}()
		quiet(tier)
		gates.Open("receiver-starts")
		st, _ := settle(tier, func() bool {
			select {
			case <-done:
				return true
			default:
				return false
			}
		})
		drops := h.Hits()["proxy.drop"]
		res.Stat("burst_streams", 1)
		res.Stat("burst_drops_counted", drops)
		if st == "ok" {
			// in-order subsequence of what the handler sent
			j := 0
			for _, g := range got {
				for j < len(hrec.Sent) && string(hrec.Sent[j]) != string(g) {
					j++
				}
				if j == len(hrec.Sent) {
					res.Violate("burst-reorder-or-fabrication", "burst stream delivered a message out of order or never sent")
					break
				}
				j++
			}
			lost := len(hrec.Sent) - len(got)
			if end == io.EOF && lost > 0 {
				if int64(lost) <= drops {
					res.Violate("stream-incomplete-loss-accounted-by-drop-counter@proxy.go:forwardRpc",
						"server-stream of %d messages relayed by the proxy ended with io.EOF after only %d (the proxy dropped %d envelopes on its full 16-slot buffer)", len(hrec.Sent), len(got), drops)
				} else {
					res.Violate("stream-incomplete-loss-not-accounted", "stream reported complete with %d of %d messages but only %d drops were counted", len(got), len(hrec.Sent), drops)
				}
			}
		} else if st == "stuck" {
			// a dropped trailer leaves the caller waiting: also a consequence of drop-on-full
			if drops > 0 {
				res.Violate("stream-incomplete-loss-accounted-by-drop-counter@proxy.go:forwardRpc", "burst stream never ends: %d envelopes (possibly the trailer) were dropped on the proxy's full buffer", drops)
			} else {
				res.Violate("burst-stream-hangs-without-drops", "burst stream hangs although no drop was counted")
			}
		}
	} else {
		// 64 concurrent unary calls through the proxy
		var mu sync.Mutex
		okN, failN := 0, 0
		var w Waiter
		w.Add(64)
		ctx, cancel := context.WithCancel(context.Background())
		for i := 0; i < 64; i++ {
			go func(i int) {
				defer w.Done()
				tag := fmt.Sprintf("bu%d-%d", idx, i)
				got, err := svc.Invoke(ctx, cc, tag, []byte(tag))
				mu.Lock()
				if err == nil && string(got) == tag {
					okN++
				} else if err == nil {
					res.Violate("burst-unary-wrong-reply", "call %s got %q", tag, got)
				} else {
					failN++
				}
				mu.Unlock()
			}(i)
		}
		quiet(tier)
		drops := h.Hits()["proxy.drop"]
		mu.Lock()
		pending := 64 - okN - failN
		mu.Unlock()
		res.Stat("burst_unary_calls", 64)
		res.Stat("burst_drops_counted", drops)
		if int64(pending) > drops {
			res.Violate("unary-loss-not-accounted", "%d unary calls never completed but only %d drops were counted", pending, drops)
		} else if pending > 0 {
			res.Violate("unary-call-lost-loss-accounted-by-drop-counter@proxy.go:forwardRpc", "%d of 64 concurrent unary calls through the proxy never complete: their request or reply was dropped on the full buffer (%d drops)", pending, drops)
		}
		cancel()
		settle(tier, func() bool { return w.Left() == 0 })
	}
	// after the burst has drained, traffic below the buffer reaches the same (still attached, live)
	// peers: three calls, one at a time
	before := h.Hits()["proxy.drop"]
	for k := 0; k < 3; k++ {
		tag := fmt.Sprintf("after-burst%d-%d", idx, k)
		pdone := make(chan error, 1)
		pctx, pcancel := context.WithCancel(context.Background())
		go func() {
			got, err := svc.Invoke(pctx, cc, tag, []byte(tag))
			if err == nil && string(got) != tag {
				err = fmt.Errorf("wrong reply %q", got)
			}
			pdone <- err
		}()
		var perr error
		pgot := false
		stp, _ := settle(tier, func() bool {
			select {
			case perr = <-pdone:
				pgot = true
			default:
			}
			return pgot
		})
		pcancel()
		if stp == "stuck" {
			res.Violate("peer-lost-after-burst", "call %d made after the burst had drained never completes (final state, %d drops during the calls): the proxy no longer reaches a peer that is still attached and alive", k, h.Hits()["proxy.drop"]-before)
			break
		} else if stp == "ok" && perr != nil {
			res.Violate("peer-lost-after-burst", "call %d made after the burst had drained failed: %v", k, perr)
			break
		} else if stp == "ok" {
			res.Stat("calls_after_burst", 1)
		}
	}
	finish(tier, b, h, res)
	res.Retire = true
}

func init() {
	core.Register(&core.Prop{
		ID:             "C16",
		Level:          "exploration",
		Rule:           "(envelopes) 1..8 attached + 0..4 dialable scripted peers on one proxy, each attached peer sends uniquely numbered envelopes (random bodies, some with status/trailer, earlier ProxyRecord, a ProxyNext route, alias / blocked / unknown destinations) under one of 4 rewriting functions, with a credit scheme keeping <=12 outstanding per destination; per (source, destination) the delivered sequence must equal the sent sequence, proto.Equal modulo ProxyRecord (+ exactly one proxy name), ProxyNext (last hop popped) and the rewritten destination, each peer dialled at most once, proxy.drop never fires. (rpc) the C01 proxy-topology cases and C02 cases forced through client-proxy-demux-serve must pass their own oracles with zero drops. (redial) the first 1..3 dials of a name fail and later ones succeed: envelopes sent after the failure was reported arrive in order through a fresh dial. (refail) a peer re-attaches and the superseded connection fails afterwards; a dialled peer's connection faults while the serve loop is held in the rewriting function: later envelopes reach the peer currently attached / a fresh dial. (burst) server-stream of 50 and 64 concurrent unary calls above the buffer: loss must be exactly accounted for by the drop hook and never a reorder/duplicate; after the burst has drained, three calls one at a time must complete (the peers are still attached and alive). Distinct = case descriptors; all non-trivial.",
		Plan:           func(tier string, seed int64) int { return len(c16List(tier)) },
		ThoroughRounds: 4,
		Run:            c16Run,
		RequiredStats: func(string) []string {
			return []string{"envelopes_delivered_and_compared", "rpc_workload_cases_through_proxy", "burst_streams", "hook:proxy.forward", "redial_cases", "refail_cases", "refused_request_cases", "calls_after_burst"}
		},
		Assumptions: []string{"bounded families keep at most 12 envelopes outstanding per destination (below the proxy's 16-slot buffer), as the property prescribes"},
	})
}

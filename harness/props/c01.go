package props

import (
	"bytes"
	"context"
	"fmt"
	"strings"
	"sync"

	"google.golang.org/grpc"
	"google.golang.org/grpc/metadata"

	"goatverif/bed"
	"goatverif/core"
	"goatverif/svc"
)

// C01: unary request/reply pairing.

type c01Case struct {
	Topology  string `json:"topology"`
	Callers   int    `json:"callers"`
	Cap       int    `json:"link_capacity"`
	Serialise bool   `json:"serialising"`
	GMP       int    `json:"gomaxprocs"`
	GatedPct  int    `json:"gated_pct"`
	Jitter    bool   `json:"jitter"`
	CancelN   int    `json:"callers_cancelled_while_blocked,omitempty"`
	LateN     int    `json:"callers_started_after_the_cancellations,omitempty"`
	Abandoned int    `json:"responses_of_a_stream_abandoned_before_the_calls,omitempty"`
	Clients   int    `json:"client_connections_on_one_server,omitempty"`
}

func c01Gen(seed int64, idx int) c01Case {
	r := rng(seed, idx, "c01")
	c := c01Case{}
	c.Topology = []string{"direct", "direct", "proxy", "fanin"}[idx%4]
	ks := []int{1, 2, 3, 8, 16, 64}
	c.Callers = ks[(idx/4)%len(ks)]
	if c.Topology == "proxy" && idx%8 == 6 {
		// a chain of three proxies: the reply follows the recorded route back
		c.Topology = "chain"
	}
	if (c.Topology == "proxy" || c.Topology == "chain") && c.Callers > 12 {
		// the proxy drops above its 16-slot per-destination buffer (C16 known finding); C01 stays below it
		c.Callers = 12
	}
	c.Cap = []int{0, 8}[r.Intn(2)]
	c.Serialise = r.Intn(2) == 0
	c.GMP = []int{1, 4, 16}[r.Intn(3)]
	c.GatedPct = []int{0, 50, 100}[r.Intn(3)]
	c.Jitter = r.Intn(3) != 0
	if c.Topology == "direct" && c.Callers >= 16 && idx%8 == 1 {
		// other callers give up while blocked behind the busy server (all handlers gated): their
		// cancellation must not disturb anybody else's pairing
		c.GatedPct, c.Cap = 100, 0
		c.CancelN = 1 + r.Intn(3)
		c.LateN = 1 + r.Intn(4)
	}
	if (c.Topology == "direct" && idx%8 == 4) || (c.Topology == "fanin" && idx%8 == 7) {
		// several client connections served by one Server object at the same time (ids start at 1
		// on each of them): the callers are spread over the connections
		c.Clients = 2 + r.Intn(2)
	}
	if c.Topology == "direct" && idx%8 == 5 {
		// the connection has a history: a streaming call whose handler sent more than its caller
		// took was cancelled and never looked at again
		c.Abandoned = 3 + r.Intn(4)
	}
	return c
}

// the last c01WS(tier) cases run over the shipped websocket transport
func c01WS(tier string) int { return tierN(tier, 8, 64) }

func c01Run(tier string, seed int64, idx int) *core.Result {
	if base := tierN(tier, 96, 3000); idx >= base {
		if j := idx - base - c01WS(tier); j >= 0 {
			k := []int{1, 2, 4, 8}[j%4]
			res := &core.Result{Verdict: core.Held, Sample: map[string]any{"family": "reply-then-connection-end", "callers": k}, Sig: fmt.Sprintf("rte/%d", idx)}
			c01ReplyThenEnd(tier, seed, idx, k, res)
			return res
		}
		wc := wsGen(idx-base, false)
		res := &core.Result{Verdict: core.Held, Sample: wc, Sig: fmt.Sprintf("%+v/%d", wc, idx)}
		wsWorkload(seed, idx, wc, "unary", res)
		return res
	}
	c := c01Gen(seed, idx)
	r := rng(seed, idx, "c01run")
	res := &core.Result{Verdict: core.Held, Sample: c}
	setGMP(c.GMP)
	h := bed.NewHooks()
	if c.Jitter {
		h.Jitter = uint64(seed)*7919 + uint64(idx) + 1
	}
	h.Install()
	ncl := 1
	if c.Clients > 1 {
		ncl = c.Clients
		res.Stat("cases_with_several_connections_on_one_server", 1)
	}
	b := bed.New(bed.Opts{Topology: c.Topology, Clients: ncl, Cap: c.Cap, Serialise: c.Serialise})

	type rec struct {
		tag               string
		req, want         []byte
		seenReq           []byte
		got               []byte
		err               error
		handlerRuns       int
		done              bool
		gated             bool
		startSeq, doneSeq uint64
		ctx               *svc.ManualCtx
		cancelled, late   bool
		tok               []byte // binary request metadata (every third call)
		seenTok           []string
		conn              int
		second            bool // calls the service's second unary method
	}
	recs := make([]*rec, c.Callers+c.LateN)
	byTag := map[string]*rec{}
	var mu sync.Mutex
	parked := make(chan string, c.Callers)
	gates := map[string]chan struct{}{}
	for i := range recs {
		rc := &rec{tag: fmt.Sprintf("c01-%d-%d", idx, i)}
		rc.req = payload(r, pick(r, sizeClasses))
		rc.want = payload(r, pick(r, sizeClasses))
		rc.gated = r.Intn(100) < c.GatedPct
		rc.ctx = svc.NewManualCtx(context.Background())
		rc.late = i >= c.Callers
		rc.conn = i
		rc.second = i%4 == 2
		if i%3 == 1 {
			rc.tok = payload(r, 1+i%9) // lengths that need base64 padding, arbitrary bytes
			rc.tok[0] = 0xfb
			if len(rc.tok) > 1 {
				rc.tok[1] = 0xff
			}
		}
		recs[i] = rc
		byTag[rc.tag] = rc
		gates[rc.tag] = make(chan struct{})
	}
	b.Impl.DefU = func(ctx context.Context, tag string, req []byte) ([]byte, error) {
		mu.Lock()
		rc := byTag[tag]
		if rc == nil {
			mu.Unlock()
			return nil, fmt.Errorf("unknown tag %q", tag)
		}
		rc.handlerRuns++
		rc.seenReq = append([]byte(nil), req...)
		if md, ok := metadata.FromIncomingContext(ctx); ok {
			rc.seenTok = md.Get("trace-bin")
		}
		gated := rc.gated
		mu.Unlock()
		if gated {
			parked <- tag
			<-gates[tag]
		}
		return rc.want, nil
	}

	var w Waiter
	w.Add(len(recs))
	start := make(chan struct{})
	lateStart := make(chan struct{})
	for i := range recs {
		rc := recs[i]
		go func() {
			if rc.late {
				<-lateStart
			} else {
				<-start
			}
			var cctx context.Context = rc.ctx
			if rc.tok != nil {
				cctx = metadata.AppendToOutgoingContext(cctx, "trace-bin", string(rc.tok))
			}
			inv := svc.Invoke
			if rc.second {
				inv = svc.Invoke2 // the service's other unary method
			}
			got, err := inv(cctx, b.Conns[rc.conn%len(b.Conns)], rc.tag, rc.req)
			if err == nil && rc.second {
				if bytes.HasPrefix(got, []byte("U2:")) {
					got = got[3:]
				} else {
					err = fmt.Errorf("a call of Unary2 was answered by another method's handler (reply lacks the U2: mark)")
				}
			} else if err == nil && bytes.HasPrefix(got, []byte("U2:")) && !bytes.HasPrefix(rc.want, []byte("U2:")) {
				err = fmt.Errorf("a call of Unary was answered by Unary2's handler")
			}
			mu.Lock()
			rc.got, rc.err, rc.done = got, err, true
			mu.Unlock()
			w.Done()
		}()
	}
	// releaser: lets parked handlers go in PRNG-chosen order
	ngated := 0
	for _, rc := range recs {
		if rc.gated {
			ngated++
		}
	}
	relDone := make(chan struct{})
	relStop := make(chan struct{})
	relGo := make(chan struct{})
	go func() {
		defer close(relDone)
		select {
		case <-relGo:
		case <-relStop:
			return
		}
		var pk []string
		released := 0
		for released < ngated {
			if len(pk) == 0 {
				select {
				case t := <-parked:
					pk = append(pk, t)
				case <-relStop:
					return
				}
			}
			for k := 0; k < 4; k++ {
				select {
				case t := <-parked:
					pk = append(pk, t)
				default:
				}
			}
			j := r.Intn(len(pk))
			t := pk[j]
			pk = append(pk[:j], pk[j+1:]...)
			close(gates[t])
			released++
		}
	}()
	if c.Abandoned > 0 {
		b.Impl.SetStream("c01-abandoned", func(t, k string, ss grpc.ServerStream) error {
			for i := 0; i < c.Abandoned; i++ {
				if ss.SendMsg(&svc.BV{Value: []byte{byte(i)}}) != nil {
					return nil
				}
			}
			<-ss.Context().Done()
			return nil
		})
		am := svc.NewManualCtx(context.Background())
		if _, err := svc.Open(am, b.Conns[0], "bidi", "c01-abandoned", nil); err == nil {
			quiet(tier)
			am.Cancel()
			quiet(tier)
			res.Stat("streams_abandoned_before_the_calls", 1)
		}
	}
	close(start)
	if c.CancelN > 0 {
		// stage boundary: 8 handlers parked, the rest of the callers blocked behind them
		quiet(tier)
		mu.Lock()
		n := 0
		for _, rc := range recs {
			if !rc.late && rc.handlerRuns == 0 && !rc.done && n < c.CancelN {
				rc.cancelled = true
				n++
			}
		}
		mu.Unlock()
		for _, rc := range recs {
			if rc.cancelled {
				rc.ctx.Cancel()
			}
		}
		quiet(tier)
		res.Stat("callers_cancelled_while_blocked", int64(n))
	}
	close(lateStart)
	if c.CancelN > 0 {
		quiet(tier)
	}
	close(relGo)

	st, snap := settle(tier, func() bool { return w.Left() == 0 })
	close(relStop)
	switch st {
	case "stuck":
		var pend []string
		mu.Lock()
		for _, rc := range recs {
			if !rc.done {
				pend = append(pend, rc.tag)
			}
		}
		mu.Unlock()
		res.ViolateD("unary-call-never-returns", map[string]any{"pending": pend, "goat_goroutines": goatParked(snap), "dump": snap.Dump()},
			"%d of %d unary calls have not returned in a final state (no goroutine can run)", len(pend), c.Callers)
	case "timeout":
		res.Verdict = core.Inconclusive
		res.Note = "watchdog before all calls returned"
	}
	if st == "ok" {
		mu.Lock()
		for _, rc := range recs {
			switch {
			case rc.cancelled:
				if rc.err == nil || rc.handlerRuns > 1 {
					res.Violate("cancelled-caller-result", "caller %s was cancelled while blocked but returned err=%v (handler ran %d times)", rc.tag, rc.err, rc.handlerRuns)
				}
			case rc.err != nil:
				res.Violate("unary-call-error", "call %s failed: %v (req %d bytes)", rc.tag, rc.err, len(rc.req))
			case rc.handlerRuns != 1:
				res.Violate("handler-runs-not-once", "handler for %s ran %d times", rc.tag, rc.handlerRuns)
			case !bytes.Equal(rc.seenReq, rc.req):
				res.Violate("request-altered", "handler for %s saw a request of %d bytes that differs from the caller's %d bytes", rc.tag, len(rc.seenReq), len(rc.req))
			case !bytes.Equal(rc.got, rc.want):
				res.Violate("reply-mismatch", "caller %s got a reply of %d bytes that differs from its handler's %d bytes", rc.tag, len(rc.got), len(rc.want))
			case rc.tok != nil && (len(rc.seenTok) != 1 || rc.seenTok[0] != string(rc.tok)):
				res.Violate("request-altered", "handler for %s saw binary request metadata %q, the caller attached %q", rc.tag, rc.seenTok, rc.tok)
			case rc.tok != nil:
				res.Stat("calls_with_binary_request_metadata", 1)
			}
		}
		mu.Unlock()
		// wire cross-check on the client link: one request and one response per id,
		// and count replies that overtook an older request
		if len(b.Links) > 0 && ncl == 1 {
			reqAt := map[uint64]int{}
			nreq, nresp := map[uint64]int{}, map[uint64]int{}
			overt := 0
			var order []uint64
			abandonedID := uint64(0)
			for i, e := range b.Links[0].Tap.Log() {
				id := e.Rpc.GetId()
				if c.Abandoned > 0 {
					// the abandoned stream (the connection's first call) is history, not one of the unary calls
					if abandonedID == 0 && e.Dir == 0 {
						abandonedID = id
					}
					if id == abandonedID {
						continue
					}
				}
				if e.Dir == 0 {
					nreq[id]++
					reqAt[id] = i
					order = append(order, id)
				} else {
					nresp[id]++
					// overtaking: some older request is still unanswered
					for _, o := range order {
						if o == id {
							break
						}
						if nresp[o] == 0 {
							overt++
							break
						}
					}
				}
			}
			for id, n := range nreq {
				if c.CancelN > 0 && n == 1 && nresp[id] <= 1 {
					continue // a cancelled caller's request may be answered or not
				}
				if n != 1 || nresp[id] != 1 {
					res.Violate("wire-unary-count", "id %d: %d request and %d response envelopes on the wire (want 1 and 1)", id, n, nresp[id])
				}
			}
			if c.CancelN == 0 && len(nreq) != c.Callers {
				res.Violate("wire-id-count", "%d distinct ids on the wire for %d calls", len(nreq), c.Callers)
			}
			res.Stat("replies_overtaking_older_request", int64(overt))
			res.Stat("wire_envelopes", int64(len(b.Links[0].Tap.Log())))
			res.NonTrivial = overt > 0
		}
		for tag, n := range b.Impl.Invoked() {
			if rc := byTag[strings.TrimPrefix(tag, "u:")]; rc != nil && rc.cancelled {
				continue
			}
			if n != 1 {
				res.Violate("handler-runs-not-once", "%s invoked %d times", tag, n)
			}
		}
	}
	res.Stat("calls", int64(len(recs)))
	res.StatMax("max_concurrent_callers", int64(c.Callers))
	res.SetAdd("topologies", c.Topology)
	if c.Topology == "chain" {
		res.Stat("cases_through_three_chained_proxies", 1)
	}
	res.Sig = fmt.Sprintf("%+v", c)
	left := finish(tier, b, h, res)
	<-relDone
	_ = left
	return res
}

func init() {
	core.Register(&core.Prop{
		ID:             "C01",
		Level:          "exploration",
		Rule:           "cases = (topology direct|proxy|chain of three proxies (every 8th case; replies follow the recorded route back)|fanin+demux) x callers {1,2,3,8,16,64} released together on ONE connection x link capacity {0,8} x {serialising, by-reference} x GOMAXPROCS {1,4,16} x handler-gating {0,50,100}% with a releaser letting parked handlers go in PRNG order; payload sizes from {0,1,17,1Ki,4Ki,64Ki} random bytes both ways; every fourth call goes to the service's second unary method (its handler marks the reply); every third call carries binary request metadata (1..9 arbitrary bytes under a -bin key) that the handler must see unchanged; every 8th direct and every 8th fan-in case spreads its callers over 2..3 client connections served by the one Server object at the same time; every 8th case (direct) first abandons a streaming call on the same connection (handler sent 3..6 messages, caller cancelled without receiving); every 8th direct case with >=16 callers additionally cancels 1..3 callers while they are blocked behind the fully gated server and starts 1..4 late callers before releasing the handlers. Plus (quick 8, thorough 64) cases over the shipped websocket transport on loopback sockets whose writes stall half-way: {2,8,16,64} concurrent callers, payloads 0..64 KiB around the 4 KiB frame chunk, the first 4 handlers held until 4 requests have arrived; wall-clock bound 30 s = inconclusive, only wrong requests/replies are violations. Plus (quick 12, thorough 96) reply-then-connection-end cases: {1,2,4,8} callers are held inside their transport write until their replies have been read and dispatched by the client and the connection has then ended (EOF or read failure); each must still get its reply. A case is non-trivial when, measured on the wire tap, at least one reply overtook an older unanswered request; distinct = distinct case parameter tuples.",
		Plan:           func(tier string, seed int64) int { return tierN(tier, 96, 3000) + c01WS(tier) + tierN(tier, 12, 96) },
		ThoroughRounds: 3,
		Run:            c01Run,
		MaxStats:       []string{"max_concurrent_callers"},
		Assumptions:    []string{"transport is reliable and ordered (harness link)", "proxy topology limited to 12 concurrent calls (below the proxy's 16-slot buffer, see C16)"},
		RequiredStats: func(string) []string {
			return []string{"replies_overtaking_older_request", "callers_cancelled_while_blocked", "hook:srv.unary.handoff", "hook:mux.beforeDispatch", "hook:srv.writer.beforeWrite", "ws_unary_calls_checked", "replies_kept_across_connection_end", "streams_abandoned_before_the_calls", "calls_with_binary_request_metadata", "cases_with_several_connections_on_one_server"}
		},
	})
}

package props

import (
	"context"
	"fmt"
	"io"
	"math/rand"
	"sync"
	"sync/atomic"

	"google.golang.org/grpc"
	"google.golang.org/grpc/metadata"

	"goatverif/bed"
	"goatverif/core"
	"goatverif/svc"
)

// C02: streams deliver every message once, in order, then the correct end-of-stream.

type pairSpec struct {
	Kind  string `json:"kind"`
	Pair  string `json:"pair"`
	N     int    `json:"n_client_msgs"`
	M     int    `json:"m_handler_msgs"`
	K     int    `json:"k_read_before_return,omitempty"`
	SizeC int    `json:"size_client"`
	SizeS int    `json:"size_handler"`
	Park  string `json:"park,omitempty"` // "", recv, send, close
}

type pairProg struct {
	sender, receiver, handler []Op
	serverReq                 []byte
	// expectations
	fullDrain bool // handler reads everything and must see io.EOF
}

var pairNames = []string{"client/sendall-drainreply", "server/burst", "bidi/pingpong-echo", "bidi/concurrent-echo",
	"bidi/sendall-drainburst", "bidi/halfclose-first-burst", "bidi/concurrent-indep", "bidi/sendall-return-early", "client/return-early-reply"}

// buildPair turns a spec into programs. gate names a gate that, when non-empty,
// keeps a handler from sending while its caller is still inside a blocking
// send-side call without an independent receiver (goat has no per-stream flow
// control, so on a connection shared with other streams such a pair can
// deadlock by construction; see DESIGN.md "admissibility").
func buildPair(p pairSpec, gate string) pairProg {
	var pp pairProg
	switch p.Pair {
	case "client/sendall-drainreply":
		pp.sender = []Op{{Op: "send", N: p.N, Size: p.SizeC}, {Op: "closeSend"}, {Op: "recv", N: 1}, {Op: "arm"}, {Op: "recvAll"}, {Op: "trailer"}}
		pp.handler = []Op{{Op: "recvAll"}, {Op: "send", N: 1, Size: p.SizeS}}
		pp.fullDrain = true
	case "server/burst":
		pp.serverReq = msgBytes("srvreq", 'C', 0, p.SizeC)
		pp.sender = []Op{}
		if gate != "" {
			pp.sender = append(pp.sender, Op{Op: "openGate", Gate: gate})
		}
		if p.M > 0 {
			pp.sender = append(pp.sender, Op{Op: "recv", N: p.M})
		}
		pp.sender = append(pp.sender, Op{Op: "arm"}, Op{Op: "recvAll"}, Op{Op: "trailer"})
		pp.handler = []Op{{Op: "recv", N: 1}}
		if gate != "" {
			pp.handler = append(pp.handler, Op{Op: "gate", Gate: gate})
		}
		if p.M > 0 {
			pp.handler = append(pp.handler, Op{Op: "send", N: p.M, Size: p.SizeS})
		}
	case "bidi/pingpong-echo":
		for i := 0; i < p.N; i++ {
			pp.sender = append(pp.sender, Op{Op: "send", N: 1, Size: p.SizeC}, Op{Op: "recv", N: 1})
		}
		pp.sender = append(pp.sender, Op{Op: "closeSend"}, Op{Op: "arm"}, Op{Op: "recvAll"}, Op{Op: "trailer"})
		pp.handler = []Op{{Op: "echo"}}
		pp.fullDrain = true
	case "bidi/concurrent-echo":
		if p.N > 0 {
			pp.sender = append(pp.sender, Op{Op: "send", N: p.N, Size: p.SizeC})
		}
		pp.sender = append(pp.sender, Op{Op: "closeSend"})
		pp.receiver = []Op{{Op: "recvAll"}, {Op: "trailer"}}
		pp.handler = []Op{{Op: "echo"}}
		pp.fullDrain = true
	case "bidi/sendall-drainburst":
		if p.N > 0 {
			pp.sender = append(pp.sender, Op{Op: "send", N: p.N, Size: p.SizeC})
		}
		pp.sender = append(pp.sender, Op{Op: "closeSend"})
		if p.M > 0 {
			pp.sender = append(pp.sender, Op{Op: "recv", N: p.M})
		}
		pp.sender = append(pp.sender, Op{Op: "arm"}, Op{Op: "recvAll"}, Op{Op: "trailer"})
		pp.handler = []Op{{Op: "recvAll"}}
		if p.M > 0 {
			pp.handler = append(pp.handler, Op{Op: "send", N: p.M, Size: p.SizeS})
		}
		pp.fullDrain = true
	case "bidi/halfclose-first-burst":
		pp.sender = []Op{{Op: "closeSend"}}
		if gate != "" {
			pp.sender = append(pp.sender, Op{Op: "openGate", Gate: gate})
			pp.handler = append(pp.handler, Op{Op: "gate", Gate: gate})
		}
		if p.M > 0 {
			pp.sender = append(pp.sender, Op{Op: "recv", N: p.M})
		}
		pp.sender = append(pp.sender, Op{Op: "arm"}, Op{Op: "recvAll"}, Op{Op: "trailer"})
		if p.M > 0 {
			pp.handler = append(pp.handler, Op{Op: "send", N: p.M, Size: p.SizeS})
		}
		pp.handler = append(pp.handler, Op{Op: "recvAll"})
		pp.fullDrain = true
	case "bidi/concurrent-indep":
		if p.N > 0 {
			pp.sender = append(pp.sender, Op{Op: "send", N: p.N, Size: p.SizeC})
		}
		pp.sender = append(pp.sender, Op{Op: "closeSend"})
		pp.receiver = []Op{{Op: "recvAll"}, {Op: "trailer"}}
		if p.M > 0 {
			pp.handler = append(pp.handler, Op{Op: "send", N: p.M, Size: p.SizeS})
		}
		pp.handler = append(pp.handler, Op{Op: "recvAll"})
		pp.fullDrain = true
	case "bidi/slow-handler":
		// the handler takes 3.5 s of real time before it starts receiving while the caller sends
		// ahead: the messages wait in the server (one queued, one in the read loop's hand-off)
		pp.sender = []Op{{Op: "send", N: p.N, Size: p.SizeC}, {Op: "closeSend"}, {Op: "arm"}, {Op: "recvAll"}, {Op: "trailer"}}
		pp.handler = []Op{{Op: "sleepReal", N: 3500}, {Op: "recvAll"}, {Op: "send", N: 1, Size: p.SizeS}}
		pp.fullDrain = true
	case "bidi/fullduplex-handler":
		// the handler receives in a goroutine of its own while it sends; the caller waits for the
		// handler's messages before it sends anything
		if p.M > 0 {
			pp.sender = append(pp.sender, Op{Op: "recv", N: p.M})
		}
		if p.N > 0 {
			pp.sender = append(pp.sender, Op{Op: "send", N: p.N, Size: p.SizeC})
		}
		pp.sender = append(pp.sender, Op{Op: "closeSend"}, Op{Op: "arm"}, Op{Op: "recvAll"}, Op{Op: "trailer"})
		pp.handler = []Op{{Op: "spawnRecvAll"}}
		if p.M > 0 {
			pp.handler = append(pp.handler, Op{Op: "send", N: p.M, Size: p.SizeS})
		}
		pp.handler = append(pp.handler, Op{Op: "join"})
		pp.fullDrain = true
	case "bidi/sendall-return-early":
		// handler reads K (< N) messages and returns success
		if p.K > 0 {
			pp.sender = append(pp.sender, Op{Op: "send", N: p.K, Size: p.SizeC})
		}
		pp.sender = append(pp.sender, Op{Op: "armSend"})
		if p.N > p.K {
			pp.sender = append(pp.sender, Op{Op: "send", N: p.N - p.K, Size: p.SizeC})
		}
		pp.sender = append(pp.sender, Op{Op: "closeSend"}, Op{Op: "recvAll"}, Op{Op: "trailer"})
		if p.K > 0 {
			pp.handler = append(pp.handler, Op{Op: "recv", N: p.K})
		}
		pp.handler = append(pp.handler, Op{Op: "gate", Gate: "early"})
	case "client/return-early-reply":
		if p.K > 0 {
			pp.sender = append(pp.sender, Op{Op: "send", N: p.K, Size: p.SizeC})
		}
		pp.sender = append(pp.sender, Op{Op: "armSend"})
		if p.N > p.K {
			pp.sender = append(pp.sender, Op{Op: "send", N: p.N - p.K, Size: p.SizeC})
		}
		pp.sender = append(pp.sender, Op{Op: "closeSend"}, Op{Op: "recv", N: 1}, Op{Op: "recvAll"}, Op{Op: "trailer"})
		if p.K > 0 {
			pp.handler = append(pp.handler, Op{Op: "recv", N: p.K})
		}
		pp.handler = append(pp.handler, Op{Op: "gate", Gate: "early"}, Op{Op: "send", N: 1, Size: p.SizeS})
	}
	return pp
}

func genPair(r *rand.Rand, maxCount int) pairSpec {
	p := pairSpec{Pair: pick(r, pairNames)}
	p.Kind = p.Pair[:6]
	switch p.Kind {
	case "client":
	case "server":
	default:
		p.Kind = "bidi"
	}
	cnt := func() int {
		switch r.Intn(5) {
		case 0:
			return 0
		case 1:
			return 1
		case 2:
			return 2 + r.Intn(4)
		case 3:
			return 6 + r.Intn(20)
		default:
			return r.Intn(maxCount + 1)
		}
	}
	p.N, p.M = cnt(), cnt()
	p.SizeC, p.SizeS = pick(r, sizeClasses), pick(r, sizeClasses)
	if p.N+p.M > 60 { // keep big histories cheap: large counts get small messages
		if p.SizeC > 1024 {
			p.SizeC = 17
		}
		if p.SizeS > 1024 {
			p.SizeS = 17
		}
	}
	if p.Pair == "bidi/sendall-return-early" || p.Pair == "client/return-early-reply" {
		if p.N == 0 {
			p.N = 1 + r.Intn(8)
		}
		p.K = r.Intn(p.N)
	}
	if p.Pair == "bidi/pingpong-echo" && p.N > 60 {
		p.N = 60
	}
	return p
}

type c02Case struct {
	Streams   []pairSpec `json:"streams"`
	Topology  string     `json:"topology"`
	Cap       int        `json:"link_capacity"`
	Serialise bool       `json:"serialising"`
	GMP       int        `json:"gomaxprocs"`
	Jitter    bool       `json:"jitter"`
}

func c02Gen(tier string, seed int64, idx int) c02Case {
	r := rng(seed, idx, "c02")
	c := c02Case{Cap: []int{0, 8}[r.Intn(2)], Serialise: r.Intn(2) == 0, GMP: []int{1, 4, 16}[r.Intn(3)], Jitter: r.Intn(2) == 0}
	c.Topology = []string{"direct", "direct", "direct", "proxy", "fanin"}[r.Intn(5)]
	maxCount := 200
	switch idx % 3 {
	case 0: // directed window: one stream, parked terminal receive / late send / late half-close
		p := genPair(r, 40)
		switch {
		case p.Pair == "bidi/sendall-return-early" || p.Pair == "client/return-early-reply":
			p.Park = []string{"send", "close"}[r.Intn(2)]
			if p.Park == "close" {
				p.N = p.K // everything sent is read; the half-close is the late operation
				if p.N == 0 {
					p.N, p.K = 1, 1
				}
			}
		case p.Pair == "bidi/concurrent-echo" || p.Pair == "bidi/concurrent-indep":
			p.Pair = "bidi/sendall-drainburst"
			p.Park = "recv"
		default:
			p.Park = "recv"
		}
		c.Streams = []pairSpec{p}
		c.Topology = "direct"
	default:
		n := []int{1, 2, 3, 8, 32}[r.Intn(5)]
		if c.Topology == "proxy" && n > 3 {
			n = 3 // stay below the proxy's per-destination buffer (see C16)
		}
		for i := 0; i < n; i++ {
			mc := maxCount
			if n > 3 {
				mc = 30
			}
			p := genPair(r, mc)
			if n > 1 && (p.Pair == "bidi/sendall-return-early" || p.Pair == "client/return-early-reply") {
				// a handler that returns early is an abandonment; combined with other live
				// streams on a connection without flow control it can deadlock by
				// construction (resets for the late bodies queue up behind the unread
				// reply).  Such pairs run alone (single-stream cases) and in C11.
				p.Pair, p.Kind, p.K = "bidi/sendall-drainburst", "bidi", 0
			}
			if c.Topology == "proxy" {
				// at most ~12 envelopes outstanding per destination: ping-pong style pairs only
				p.Pair = []string{"bidi/pingpong-echo", "client/sendall-drainreply"}[r.Intn(2)]
				p.Kind = map[string]string{"bidi/pingpong-echo": "bidi", "client/sendall-drainreply": "client"}[p.Pair]
				if p.N > 3 {
					p.N = 3
				}
				p.K = 0
			}
			c.Streams = append(c.Streams, p)
		}
		if idx%200 == 10 {
			// one stream alone with a handler that is slow in real time
			p := c.Streams[0]
			p.Pair, p.Kind, p.K, p.N, p.M, p.Park = "bidi/slow-handler", "bidi", 0, 4, 0, ""
			c.Streams = []pairSpec{p}
			c.Topology = "direct"
		}
		if idx%7 == 3 && c.Topology != "proxy" && idx%200 != 10 {
			// the first stream's handler is full-duplex
			p := &c.Streams[0]
			p.Pair, p.Kind, p.K = "bidi/fullduplex-handler", "bidi", 0
			if p.M == 0 {
				p.M = 1 + idx%5
			}
			if p.M > 12 {
				p.M = 12
			}
		}
		if c.Topology == "proxy" && (idx/3)%2 == 1 {
			// half of the proxy cases run through a chain of three proxies: responses, trailers and
			// resets of streams follow the recorded route back
			c.Topology = "chain"
		}
	}
	return c
}

// c02CompleteThenLoss: the handler sends its messages and returns success; the caller is slow and
// starts receiving only after the complete response (trailer included) has been read by the client
// AND the connection has then ended. The stream completed successfully: the caller must receive
// every message and then io.EOF.
func c02CompleteThenLoss(tier string, seed int64, idx, j int, res *core.Result) {
	kind := []string{"server", "bidi"}[j%2]
	ek := []string{"io.EOF", "custom", "wrapped-io.EOF", "context.Canceled"}[(j/2)%4]
	res.Sample = map[string]any{"family": "complete-then-connection-end", "kind": kind, "read_error": ek}
	setGMP([]int{1, 4, 16}[j%3])
	h := bed.NewHooks()
	h.Install()
	b := bed.New(bed.Opts{Serialise: j%4 < 2})
	cc := b.Conns[0]
	gates := NewGates()
	tag := fmt.Sprintf("ctl%d", idx)
	hrec := &SideRec{}
	hops := []Op{{Op: "send", N: 1, Size: 17}, {Op: "ret"}}
	if kind == "server" {
		hops = append([]Op{{Op: "recv", N: 1}}, hops...)
	}
	b.Impl.SetStream(tag, func(t, k string, ss grpc.ServerStream) error { return runHandlerProg(ss, t, hops, hrec, gates) })
	end := b.Links[0].A
	if e := c09ReadErr(ek); e != nil {
		end.SetReadErr(e)
	}
	end.FailReadAfter(2) // one body + the trailer
	end.SetOnRead(func(n int) {
		if n >= 2 {
			end.Discard()
		}
	})
	cops := []Op{{Op: "gate", Gate: "connection-ended"}, {Op: "recvAll"}}
	cr := StartClient(context.Background(), func() {}, nil, cc, kind, tag, []byte("q"), cops, nil, gates, nil, nil)
	st, _ := settle(tier, func() bool { return readErrSet(cc) })
	if st != "ok" {
		res.Verdict, res.Note = core.Inconclusive, "end of connection not reached: "+st
		gates.OpenAll()
		finish(tier, b, h, res)
		return
	}
	quiet(tier)
	gates.Open("connection-ended")
	st, snap := settle(tier, cr.IsDone)
	if st == "stuck" {
		res.ViolateD("stream-operation-never-returns/complete-then-connection-end", map[string]any{"goat_goroutines": goatParked(snap)}, "caller never returned although its complete response had been delivered")
	} else if st == "timeout" {
		res.Verdict, res.Note = core.Inconclusive, "watchdog"
	} else {
		observed := callerOutcome(cr.Rec)
		if ok, why := seqEqual(cr.Rec.Recvd, hrec.Sent); !ok {
			res.Violate("caller-sequence-differs/complete-then-connection-end", "the response was completely delivered before the connection ended (%s), but the caller received a different sequence: %s", ek, why)
		}
		if observed != io.EOF {
			res.Violate("successful-stream-reported-failed/complete-then-connection-end", "handler returned success, message and trailer were read by the client, then the connection ended (%s); the caller observed %v instead of io.EOF", ek, observed)
		}
		res.Stat("complete_then_connection_end_cases", 1)
	}
	res.NonTrivial = true
	finish(tier, b, h, res)
}

// c02WriteFault: one transport write of the caller's stream fails (once; the connection stays
// healthy). The send that hit it must report the failure - or the message must arrive: whatever the
// handler received is a gap-free prefix of what the caller's sends reported as sent.
func c02WriteFault(tier string, seed int64, idx, j int, res *core.Result) {
	kind := []string{"client", "bidi"}[j%2]
	n := 4 + j%4
	k := 1 + j%n // which of the caller's writes after the open fails
	res.Sample = map[string]any{"family": "one-shot-write-fault", "kind": kind, "messages": n, "failing_write": k}
	setGMP([]int{1, 4, 16}[j%3])
	h := bed.NewHooks()
	h.Install()
	b := bed.New(bed.Opts{Serialise: j%2 == 0, Cap: []int{0, 8}[(j/2)%2]})
	cc := b.Conns[0]
	gates := NewGates()
	tag := fmt.Sprintf("wf%d", idx)
	hrec := &SideRec{}
	hops := []Op{{Op: "recvAll"}}
	if kind == "client" {
		hops = append(hops, Op{Op: "send", N: 1, Size: 17})
	}
	b.Impl.SetStream(tag, func(t, kd string, ss grpc.ServerStream) error { return runHandlerProg(ss, t, hops, hrec, gates) })
	end := b.Links[0].A
	end.FailWritesAt(end.Writes() + k) // the open is the next write
	cops := []Op{{Op: "send", N: n, Size: 17}, {Op: "closeSend"}, {Op: "recvAll"}}
	cr := StartClient(context.Background(), func() {}, nil, cc, kind, tag, nil, cops, nil, gates, nil, nil)
	st, snap := settle(tier, cr.IsDone)
	if st == "stuck" {
		res.ViolateD("stream-operation-never-returns/one-shot-write-fault", map[string]any{"goat_goroutines": goatParked(snap)}, "a stream one of whose writes failed never finishes on the caller's side")
	} else if st == "timeout" {
		res.Verdict, res.Note = core.Inconclusive, "watchdog"
	} else {
		quiet(tier)
		outcome := callerOutcome(cr.Rec)
		hrec.mu.Lock()
		cr.Rec.mu.Lock()
		got, sent := hrec.Recvd, cr.Rec.Sent
		if !isPrefix(got, sent) {
			res.Violate("handler-sequence-differs/one-shot-write-fault", "write %d of the caller's stream failed in the transport: the handler received %d messages that are not a gap-free prefix of the %d messages whose Send returned nil", k, len(got), len(sent))
		} else if len(sent) > k-1 && outcome == io.EOF {
			// every Send reported success although one write failed, and the stream completed
			if len(got) != len(sent) {
				res.Violate("handler-sequence-differs/one-shot-write-fault", "the stream completed successfully with %d of %d sent messages received", len(got), len(sent))
			}
		}
		cr.Rec.mu.Unlock()
		hrec.mu.Unlock()
		res.Stat("one_shot_write_fault_cases", 1)
	}
	res.NonTrivial = true
	finish(tier, b, h, res)
}

// c02BinaryMetadata: a stream whose handler sets binary (-bin) response header and trailer
// metadata, with values whose base64 forms differ between alphabets and need padding. The stream
// completes successfully: the caller must get every message, io.EOF, and the values unchanged.
func c02BinaryMetadata(tier string, seed int64, idx, j int, res *core.Result) {
	kind := []string{"bidi", "server", "client"}[j%3]
	val := [][]byte{{0xfb, 0xff}, {0xfb}, {0xff, 0xfe, 0xfd, 0xfc}, {0x00}, {0x3e, 0x3f, 0xfb, 0xef, 0xbe}, {}}[j%6]
	where := []string{"header", "trailer", "both"}[(j/3)%3]
	res.Sample = map[string]any{"family": "binary-response-metadata", "kind": kind, "value": fmt.Sprintf("%x", val), "where": where}
	setGMP([]int{1, 4, 16}[j%3])
	h := bed.NewHooks()
	h.Install()
	b := bed.New(bed.Opts{Serialise: j%2 == 0, Cap: j % 3})
	cc := b.Conns[0]
	tag := fmt.Sprintf("bmd%d", idx)
	b.Impl.SetStream(tag, func(t, k string, ss grpc.ServerStream) error {
		if where != "trailer" {
			ss.SetHeader(metadata.MD{"h-bin": {string(val)}})
		}
		if where != "header" {
			ss.SetTrailer(metadata.MD{"t-bin": {string(val)}})
		}
		if k != "bidi" || true {
			for {
				m := new(svc.BV)
				if err := ss.RecvMsg(m); err != nil {
					break
				}
				if k == "server" {
					break
				}
			}
		}
		n := 2
		if k == "client" {
			n = 1
		}
		for i := 0; i < n; i++ {
			if err := ss.SendMsg(&svc.BV{Value: []byte{byte(i)}}); err != nil {
				return err
			}
		}
		return nil
	})
	var got [][]byte
	var end error
	var hdr, trl metadata.MD
	done := make(chan struct{})
	go func() {
		defer close(done)
		s, err := svc.Open(context.Background(), cc, kind, tag, []byte("q"))
		if err != nil {
			end = fmt.Errorf("open: %w", err)
			return
		}
		if kind != "server" {
			s.Send([]byte("c1"))
			s.CloseSend()
		}
		for {
			m, err := s.Recv()
			if err != nil {
				end = err
				break
			}
			got = append(got, m)
		}
		hdr, _ = s.Header()
		trl = s.Trailer()
	}()
	st, snap := settle(tier, func() bool {
		select {
		case <-done:
			return true
		default:
			return false
		}
	})
	switch st {
	case "stuck":
		res.ViolateD("stream-operation-never-returns/binary-response-metadata", map[string]any{"goat_goroutines": goatParked(snap)}, "stream with binary response metadata never completes")
	case "timeout":
		res.Verdict, res.Note = core.Inconclusive, "watchdog"
	default:
		want := 2
		if kind == "client" {
			want = 1
		}
		switch {
		case end != io.EOF:
			res.Violate("successful-stream-reported-failed/binary-response-metadata", "handler returned success (binary metadata %x in %s), the caller observed %v after %d messages", val, where, end, len(got))
		case len(got) != want:
			res.Violate("caller-sequence-differs/binary-response-metadata", "caller received %d messages, handler sent %d", len(got), want)
		case where != "trailer" && (len(hdr.Get("h-bin")) != 1 || hdr.Get("h-bin")[0] != string(val)):
			res.Violate("caller-sequence-differs/binary-response-metadata", "binary header value %x arrived as %q", val, hdr.Get("h-bin"))
		case where != "header" && (len(trl.Get("t-bin")) != 1 || trl.Get("t-bin")[0] != string(val)):
			res.Violate("caller-sequence-differs/binary-response-metadata", "binary trailer value %x arrived as %q", val, trl.Get("t-bin"))
		default:
			res.Stat("binary_response_metadata_cases", 1)
		}
	}
	res.NonTrivial = true
	finish(tier, b, h, res)
}

func c02Run(tier string, seed int64, idx int) *core.Result {
	if base := tierN(tier, 600, 24000) + tierN(tier, 18, 180) + tierN(tier, 16, 128) + tierN(tier, 4, 24) + tierN(tier, 18, 108); idx >= base {
		res := &core.Result{Verdict: core.Held, Sig: fmt.Sprintf("wf/%d", idx)}
		c02WriteFault(tier, seed, idx, idx-base, res)
		return res
	}
	if base := tierN(tier, 600, 24000) + tierN(tier, 18, 180) + tierN(tier, 16, 128) + tierN(tier, 4, 24); idx >= base {
		res := &core.Result{Verdict: core.Held, Sig: fmt.Sprintf("bmd/%d", idx)}
		c02BinaryMetadata(tier, seed, idx, idx-base, res)
		return res
	}
	if base := tierN(tier, 600, 24000) + tierN(tier, 18, 180) + tierN(tier, 16, 128); idx >= base {
		res := &core.Result{Verdict: core.Held, Sig: fmt.Sprintf("hsr/%d", idx)}
		c02HTTPSlowReceiver(tier, seed, idx, idx-base, res)
		return res
	}
	if base := tierN(tier, 600, 24000) + tierN(tier, 18, 180); idx >= base {
		res := &core.Result{Verdict: core.Held, Sig: fmt.Sprintf("ctl/%d", idx)}
		c02CompleteThenLoss(tier, seed, idx, idx-base, res)
		return res
	}
	if base := tierN(tier, 600, 24000); idx >= base {
		// streams over the shipped websocket transport
		wc := wsGen(idx-base, true)
		res := &core.Result{Verdict: core.Held, Sample: wc, Sig: fmt.Sprintf("%+v/%d", wc, idx)}
		wsWorkload(seed, idx, wc, "streams", res)
		return res
	}
	return c02RunTopo(tier, seed, idx, "")
}

// c02RunTopo runs case idx; a non-empty topo forces the topology (used by C16/C18).
func c02RunTopo(tier string, seed int64, idx int, topo string) *core.Result {
	c := c02Gen(tier, seed, idx)
	if topo != "" && c.Topology != topo {
		c = c02Gen(tier, seed, idx)
		c.Topology = topo
		if topo == "proxy" {
			// stay below the proxy's per-destination buffer: at most 3 ping-pong style streams
			if len(c.Streams) > 3 {
				c.Streams = c.Streams[:3]
			}
			for i := range c.Streams {
				p := &c.Streams[i]
				if p.Park == "" {
					p.Pair = []string{"bidi/pingpong-echo", "client/sendall-drainreply"}[i%2]
					p.Kind = map[string]string{"bidi/pingpong-echo": "bidi", "client/sendall-drainreply": "client"}[p.Pair]
					if p.N > 3 {
						p.N = 3
					}
					p.K = 0
				} else if p.N+p.M > 10 {
					p.N, p.M, p.K = 2, 2, 0
					if p.Pair == "bidi/sendall-return-early" || p.Pair == "client/return-early-reply" {
						p.N, p.K = 2, 1
						if p.Park == "close" {
							p.K = 2
						}
					}
				}
			}
		}
	}
	res := &core.Result{Verdict: core.Held, Sample: c}
	setGMP(c.GMP)
	h := bed.NewHooks()
	if c.Jitter {
		h.Jitter = uint64(seed)*131 + uint64(idx) + 3
	}
	gates := NewGates()
	// directed windows
	var armed atomic.Int32 // 1 recv, 2 send, 3 close
	var armCtx atomic.Value
	release := make(chan struct{})
	var relOnce sync.Once
	var parkedN atomic.Int32
	park := func(which int32) func(uint64) {
		return func(uint64) {
			if armed.CompareAndSwap(which, 0) {
				parkedN.Add(1)
				gates.Open("early") // lets a handler that waits for the late operation return now
				ctx := armCtx.Load().(context.Context)
				select {
				case <-ctx.Done():
				case <-release:
				}
			}
		}
	}
	h.On("cs.recv.window", park(1))
	h.On("cs.send.window", park(2))
	h.On("cs.closesend.window", park(3))
	h.Install()
	b := bed.New(bed.Opts{Topology: c.Topology, Cap: c.Cap, Serialise: c.Serialise})
	cc := b.Conns[0]

	type run struct {
		spec pairSpec
		prog pairProg
		tag  string
		hrec *SideRec
		cr   *ClientRun
	}
	runs := make([]*run, len(c.Streams))
	for i, sp := range c.Streams {
		tag := fmt.Sprintf("s%d-%d", idx, i)
		gate := ""
		if len(c.Streams) > 1 {
			gate = "go/" + tag
		}
		rn := &run{spec: sp, prog: buildPair(sp, gate), tag: tag, hrec: &SideRec{}}
		runs[i] = rn
		b.Impl.SetStream(rn.tag, func(tag, kind string, ss grpc.ServerStream) error {
			return runHandlerProg(ss, tag, rn.prog.handler, rn.hrec, gates)
		})
	}
	for _, rn := range runs {
		rn := rn
		var armRecv, armSend func(context.Context)
		switch rn.spec.Park {
		case "recv":
			armRecv = func(ctx context.Context) { armCtx.Store(ctx); armed.Store(1) }
		case "send":
			armSend = func(ctx context.Context) { armCtx.Store(ctx); armed.Store(2) }
		case "close":
			armSend = func(ctx context.Context) { armCtx.Store(ctx); armed.Store(3) }
		}
		if rn.spec.Park == "" {
			gates.Open("early")
		}
		rn.cr = StartClient(context.Background(), func() {}, nil, cc, rn.spec.Kind, rn.tag, rn.prog.serverReq, rn.prog.sender, rn.prog.receiver, gates, armRecv, armSend)
	}
	allDone := func() bool {
		for _, rn := range runs {
			if !rn.cr.IsDone() {
				return false
			}
			rn.hrec.mu.Lock()
			d := rn.hrec.Done
			rn.hrec.mu.Unlock()
			if !d {
				return false
			}
		}
		return true
	}
	st, snap := settle(tier, allDone)
	if st == "stuck" && parkedN.Load() > 0 {
		// stage boundary: the parked operation's stream context was never ended; let it go on
		relOnce.Do(func() { close(release) })
		res.Stat("park_released_at_final_state", 1)
		st, snap = settle(tier, allDone)
	}
	relOnce.Do(func() { close(release) })
	switch st {
	case "stuck":
		res.ViolateD("stream-operation-never-returns", map[string]any{"goat_goroutines": goatParked(snap), "dump": snap.Dump()}, "stream programs did not finish: final state with operations pending")
	case "timeout":
		res.Verdict, res.Note = core.Inconclusive, "watchdog"
	}
	if st == "ok" {
		for _, rn := range runs {
			cr, hr := rn.cr.Rec, rn.hrec
			pfx := rn.spec.Pair
			if rn.spec.Park != "" {
				pfx += "+park-" + rn.spec.Park
			}
			// (a) handler's view of the client's messages
			var attempted [][]byte
			for _, e := range cr.Evs {
				if e.Op == "send" {
					attempted = append(attempted, e.Data)
				}
			}
			if rn.spec.Kind == "server" {
				attempted = [][]byte{rn.prog.serverReq}
			}
			if rn.prog.fullDrain || rn.spec.Kind == "server" {
				want := cr.Sent
				if rn.spec.Kind == "server" {
					want = attempted
				}
				if ok, why := seqEqual(hr.Recvd, want); !ok {
					res.Violate("handler-sequence-differs/"+pfx, "%s: handler received a sequence different from what the caller sent: %s", rn.tag, why)
				}
				if rn.prog.fullDrain && hr.RecvEnd != io.EOF {
					res.Violate("handler-eof-missing/"+pfx, "%s: handler's receive ended with %v, want io.EOF after half-close", rn.tag, hr.RecvEnd)
				}
			} else {
				if !isPrefix(hr.Recvd, attempted) || len(hr.Recvd) != rn.spec.K {
					res.Violate("handler-sequence-differs/"+pfx, "%s: handler received %d messages which are not the first %d the caller sent", rn.tag, len(hr.Recvd), rn.spec.K)
				}
			}
			// (b) caller's view
			if ok, why := seqEqual(cr.Recvd, hr.Sent); !ok {
				res.Violate("caller-sequence-differs/"+pfx, "%s: caller received a sequence different from what the handler sent: %s", rn.tag, why)
			}
			if hr.Ret == nil && hr.SendErr == nil {
				if out := callerOutcome(cr); out != io.EOF {
					res.Violate("successful-stream-reported-failed/"+pfx, "%s: handler returned success but the caller observed %v (send/close error %v, receive ended with %v)", rn.tag, out, cr.SendErr, cr.RecvEnd)
				}
			} else {
				res.Violate("handler-failed/"+pfx, "%s: handler send/return error %v / %v in a fault-free run", rn.tag, hr.SendErr, hr.Ret)
			}
			res.Stat("streams", 1)
			res.Stat("messages_c2s", int64(len(hr.Recvd)))
			res.Stat("messages_s2c", int64(len(cr.Recvd)))
			res.SetAdd("pairs", pfx)
			if len(rn.prog.receiver) > 0 {
				res.Stat("streams_with_two_client_goroutines", 1)
			}
		}
	}
	if n := parkedN.Load(); n > 0 {
		res.Stat("window_rendezvous_fired", int64(n))
	}
	res.NonTrivial = parkedN.Load() > 0 || len(runs) > 1
	for _, rn := range runs {
		if len(rn.prog.receiver) > 0 {
			res.NonTrivial = true
		}
	}
	res.StatMax("max_streams_per_connection", int64(len(runs)))
	res.Sig = fmt.Sprintf("%+v", c)
	res.SetAdd("topologies", c.Topology)
	if c.Topology == "chain" {
		res.Stat("cases_through_three_chained_proxies", 1)
	}
	for _, p := range c.Streams {
		if p.Pair == "bidi/fullduplex-handler" {
			res.Stat("full_duplex_handler_streams", 1)
		}
		if p.Pair == "bidi/slow-handler" {
			res.Stat("slow_handler_streams", 1)
		}
	}
	finish(tier, b, h, res)
	return res
}

func init() {
	core.Register(&core.Prop{
		ID:    "C02",
		Level: "exploration",
		Rule:  "cases = 1..32 concurrent streams on one connection, each a (client program, handler program) pair from 9 admissible families over the 3 stream kinds with counts 0..200 and sizes {0,1,17,1Ki,4Ki,64Ki}; every third case is a directed window: one stream whose terminal receive (or a late send / late half-close) is parked by a hook between its done-check and its blocking step until the stream has been torn down. Non-trivial = the window rendezvous fired, or >=2 streams share the connection, or the stream has separate sender and receiver goroutines; distinct = distinct generated case descriptors. Every 7th multi-stream case makes its first stream's handler full-duplex (a goroutine of its own receives while the handler sends; the caller waits for the handler's messages before it sends). Every 200th case is one stream whose handler takes 3.5 s of real time before it receives while the caller sends four messages ahead (slow, not dead: nothing may be lost). Receive objects on both sides already hold data (a reused message): a message with an empty encoding must replace it. Topologies: direct, client - proxy - Demux - Serve, fan-in - Demux - Serve, and (half of the proxy cases) a chain of three proxies in which responses, trailers and resets follow the recorded route back. Plus (quick 18, thorough 180) cases over the shipped websocket transport on loopback sockets whose writes stall half-way: 2..8 ping-pong bidi streams of 2..5 messages (0..64 KiB) with 2..16 unary calls alongside; every stream must deliver every echo in order and end with io.EOF (30 s wall bound = inconclusive). Plus (quick 16, thorough 128) complete-then-connection-end cases: the handler sends a message and returns success, the caller starts receiving only after message and trailer were read by the client and the connection then ended (io.EOF, wrapped io.EOF, custom error, context.Canceled): it must get the message and io.EOF. Plus (quick 4, thorough 24) cases over the shipped HTTP transport (two instances behind loopback servers, fake clock; every fourth is a long download - a message every 3 s of the transport's clock, 10 s idle timeout, the caller receiving promptly - which must outlive the idle timeout): the handler bursts 5..8 messages and returns success, the caller starts receiving after the burst has backed up and 3 s of the transport clock have passed: all messages, then io.EOF. Plus (quick 18, thorough 108) streams whose handler sets binary (-bin) header and/or trailer metadata with values that need base64 padding and differ between base64 alphabets: all messages, io.EOF and the values unchanged. In the HTTP family one message of every other case is 5 MiB. Plus (quick 16, thorough 96) streams one of whose caller-side transport writes fails once: what the handler received is a gap-free prefix of the messages whose Send returned nil. In the HTTP family every fourth case loses the HTTP response of one POST after the envelope was delivered: no message may arrive twice.",
		Plan: func(tier string, seed int64) int {
			return tierN(tier, 600, 24000) + tierN(tier, 18, 180) + tierN(tier, 16, 128) + tierN(tier, 4, 24) + tierN(tier, 18, 108) + tierN(tier, 16, 96)
		},
		Run:         c02Run,
		MaxStats:    []string{"max_streams_per_connection"},
		Assumptions: []string{"only admissible program pairs (no pair that deadlocks by construction under zero buffering) are generated", "proxy topology limited to <=3 ping-pong style streams (below the proxy buffer)"},
		RequiredStats: func(string) []string {
			return []string{"window_rendezvous_fired", "streams_with_two_client_goroutines", "hook:cs.recv.window", "hook:cs.send.window", "ws_streams_checked", "complete_then_connection_end_cases", "http_slow_receiver_cases", "binary_response_metadata_cases", "one_shot_write_fault_cases"}
		},
	})
}

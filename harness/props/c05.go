package props

import (
	"context"
	"fmt"
	"io"
	"runtime"
	"strings"
	"sync"
	"sync/atomic"
	"time"

	goat "github.com/avos-io/goat"
	"github.com/avos-io/goat/gen/goatorepo"
	"google.golang.org/grpc"
	"google.golang.org/grpc/codes"
	"google.golang.org/grpc/metadata"
	"google.golang.org/grpc/status"
	"google.golang.org/protobuf/proto"

	"goatverif/bed"
	"goatverif/core"
	"goatverif/quiesce"
	"goatverif/svc"
	"goatverif/wire"
)

// C05: multiplexed calls are isolated: unique ids, envelopes reach only their owner.

type c05Case struct {
	Family string `json:"family"`                   // ids | client-perm | server-perm
	Lens   []int  `json:"script_lengths,omitempty"` // per call: 1 = unary, >=2 = stream with len-2 bodies (+header-bearing first, trailer)
	From   int    `json:"from,omitempty"`
	To     int    `json:"to,omitempty"`
	Calls  int    `json:"calls,omitempty"`
	Sample bool   `json:"sampled,omitempty"`
	Topo   string `json:"topology,omitempty"`
}

var c05PermCache = map[string][][]int{}

// interleavings enumerates all merges of k sequences with the given lengths (as lists of call indices).
func interleavings(lens []int) [][]int {
	key := fmt.Sprint(lens)
	if v, ok := c05PermCache[key]; ok {
		return v
	}
	var out [][]int
	rem := append([]int{}, lens...)
	total := 0
	for _, l := range lens {
		total += l
	}
	cur := make([]int, 0, total)
	var rec func()
	rec = func() {
		if len(cur) == total {
			out = append(out, append([]int{}, cur...))
			return
		}
		for i := range rem {
			if rem[i] > 0 {
				rem[i]--
				cur = append(cur, i)
				rec()
				cur = cur[:len(cur)-1]
				rem[i]++
			}
		}
	}
	rec()
	c05PermCache[key] = out
	return out
}

func c05Configs(tier string) [][]int {
	if tier == "thorough" {
		return [][]int{{1, 2, 3}, {2, 2, 2}, {1, 1, 4}, {3, 3}, {1, 1, 1}, {2, 3, 3}, {1, 3, 4}, {2, 2, 4}, {4, 4}, {1, 2, 5}, {1, 1, 2, 2}, {2, 6}, {1, 1, 1, 3}}
	}
	return [][]int{{1, 2, 3}, {2, 2, 2}, {1, 1, 4}, {3, 3}, {1, 1, 1}, {1, 1, 2}, {2, 4}, {2, 3, 3}, {1, 2, 4}}
}

func c05List(tier string) []c05Case {
	var out []c05Case
	for _, fam := range []string{"client-perm", "server-perm"} {
		for _, lens := range c05Configs(tier) {
			n := len(interleavings(lens))
			batch := 100
			for from := 0; from < n; from += batch {
				to := from + batch
				if to > n {
					to = n
				}
				out = append(out, c05Case{Family: fam, Lens: lens, From: from, To: to})
			}
		}
	}
	nids := tierN(tier, 8, 80)
	for i := 0; i < nids; i++ {
		cs := c05Case{Family: "ids", Calls: 1280}
		if i%4 == 1 {
			// two client connections served by one Server object at the same time: each is an id
			// space of its own, and nothing may cross from one to the other
			cs.Topo = "direct/2"
		}
		if i%4 == 3 {
			// through the proxy: bursts of 12 (below its per-destination buffer)
			cs.Topo, cs.Calls = "proxy", 360
		}
		out = append(out, cs)
	}
	for i := 0; i < tierN(tier, 6, 48); i++ {
		out = append(out, c05Case{Family: "websocket", Calls: i})
	}
	for i := 0; i < tierN(tier, 4, 24); i++ {
		out = append(out, c05Case{Family: "refused-among-others", Calls: 4 + 2*(i%4)})
	}
	return out
}

func c05Payload(call, n int) []byte { return []byte(fmt.Sprintf("call%d-msg%d", call, n)) }

// ---- client side: scripted server, real client

func c05ClientPerm(tier string, lens []int, order []int, res *core.Result) {
	l := wire.NewLink(16, false)
	ctx, cancel := context.WithCancel(context.Background())
	defer cancel()
	var pmu sync.Mutex
	ids := map[string]uint64{}
	wire.NewPeer(ctx, l.B, func(p *wire.Peer, in *wire.Rpc) {
		for _, kv := range in.GetHeader().GetHeaders() {
			if kv.Key == svc.TagKey {
				pmu.Lock()
				if _, ok := ids[kv.Value]; !ok {
					ids[kv.Value] = in.GetId()
				}
				pmu.Unlock()
			}
		}
	})
	cc := goat.NewClientConn(l.A, "c0", "srv")
	type obs struct {
		msgs    [][]byte
		err     error
		hdr     metadata.MD
		trailer metadata.MD
	}
	k := len(lens)
	o := make([]*obs, k)
	var w Waiter
	w.Add(k)
	for i := range lens {
		i := i
		o[i] = &obs{}
		tag := fmt.Sprintf("k%d", i)
		go func() {
			defer w.Done()
			if lens[i] == 1 {
				got, err := svc.Invoke(context.Background(), cc, tag, []byte("q"))
				o[i].err = err
				if err == nil {
					o[i].msgs = [][]byte{got}
				}
				return
			}
			s, err := svc.Open(context.Background(), cc, "bidi", tag, nil)
			if err != nil {
				o[i].err = err
				return
			}
			for {
				m, err := s.Recv()
				if err != nil {
					o[i].err = err
					break
				}
				o[i].msgs = append(o[i].msgs, m)
			}
			o[i].hdr, _ = s.Header()
			o[i].trailer = s.Trailer()
		}()
	}
	if st, _ := settle(tier, func() bool { pmu.Lock(); defer pmu.Unlock(); return len(ids) == k }); st != "ok" {
		res.Verdict, res.Note = core.Inconclusive, "requests did not reach the scripted server"
		l.Kill()
		return
	}
	// per-call scripts
	pos := make([]int, k)
	for _, ci := range order {
		pmu.Lock()
		id := ids[fmt.Sprintf("k%d", ci)]
		pmu.Unlock()
		n := pos[ci]
		pos[ci]++
		hdr := &goatorepo.RequestHeader{Method: svc.MBidi, Source: "srv", Destination: "c0"}
		var e *wire.Rpc
		bb := func(x int) *goatorepo.Body {
			b, _ := proto.Marshal(&svc.BV{Value: c05Payload(ci, x)})
			return &goatorepo.Body{Data: b}
		}
		switch {
		case lens[ci] == 1:
			hdr.Method = svc.MUnary
			e = &wire.Rpc{Id: id, Header: hdr, Body: bb(0), Trailer: &goatorepo.Trailer{}}
		case n == lens[ci]-1:
			e = &wire.Rpc{Id: id, Header: hdr, Status: &goatorepo.ResponseStatus{Code: int32(3 + ci), Message: fmt.Sprintf("status-of-%d", ci)},
				Trailer: &goatorepo.Trailer{Metadata: []*goatorepo.KeyValue{{Key: "trailer-of", Value: fmt.Sprint(ci)}}}}
		default:
			if n == 0 {
				hdr.Headers = []*goatorepo.KeyValue{{Key: "header-of", Value: fmt.Sprint(ci)}}
			}
			e = &wire.Rpc{Id: id, Header: hdr, Body: bb(n)}
		}
		if err := l.B.Write(ctx, e); err != nil {
			res.Verdict, res.Note = core.Inconclusive, "peer write failed"
			l.Kill()
			return
		}
	}
	st, snap := settle(tier, func() bool { return w.Left() == 0 })
	if st == "stuck" {
		res.ViolateD("call-never-completes-under-interleaving", map[string]any{"order": order, "lens": lens, "goat_goroutines": goatParked(snap)}, "interleaving %v of scripts %v: a call never completes", order, lens)
	} else if st == "timeout" {
		res.Verdict, res.Note = core.Inconclusive, "watchdog"
	} else {
		for i := range lens {
			if lens[i] == 1 {
				if o[i].err != nil || len(o[i].msgs) != 1 || string(o[i].msgs[0]) != string(c05Payload(i, 0)) {
					res.Violate("unary-call-saw-foreign-or-no-reply", "interleaving %v of %v: unary call %d observed err=%v msgs=%q", order, lens, i, o[i].err, o[i].msgs)
				}
				continue
			}
			want := lens[i] - 1
			bad := len(o[i].msgs) != want
			for x := 0; !bad && x < want; x++ {
				bad = string(o[i].msgs[x]) != string(c05Payload(i, x))
			}
			if bad {
				res.Violate("stream-saw-wrong-messages", "interleaving %v of %v: stream %d received %q", order, lens, i, o[i].msgs)
			}
			s, _ := status.FromError(o[i].err)
			if int(s.Code()) != 3+i || s.Message() != fmt.Sprintf("status-of-%d", i) {
				res.Violate("stream-saw-foreign-status", "interleaving %v of %v: stream %d ended with %v", order, lens, i, o[i].err)
			}
			if want > 0 {
				if v := o[i].hdr.Get("header-of"); len(v) != 1 || v[0] != fmt.Sprint(i) {
					res.Violate("stream-saw-foreign-header", "interleaving %v of %v: stream %d header %v", order, lens, i, o[i].hdr)
				}
			}
			if v := o[i].trailer.Get("trailer-of"); len(v) != 1 || v[0] != fmt.Sprint(i) {
				res.Violate("stream-saw-foreign-trailer", "interleaving %v of %v: stream %d trailer %v", order, lens, i, o[i].trailer)
			}
		}
	}
	l.Kill()
}

// ---- server side: scripted client, real server

func c05ServerPerm(tier string, lens []int, order []int, res *core.Result) {
	impl := svc.NewImpl()
	srv := goat.NewServer("srv")
	srv.RegisterService(&svc.Desc, impl)
	goat.VerifResetTracking()
	l := wire.NewLink(16, false)
	ctx, cancel := context.WithCancel(context.Background())
	defer cancel()
	go srv.Serve(ctx, l.B)
	var mu sync.Mutex
	seen := map[string][][]byte{}
	ended := map[string]error{}
	var w Waiter
	w.Add(len(lens))
	impl.DefU = func(ctx context.Context, tag string, req []byte) ([]byte, error) {
		mu.Lock()
		seen[tag] = append(seen[tag], append([]byte{}, req...))
		mu.Unlock()
		w.Done()
		return []byte("reply-" + tag), nil
	}
	impl.DefS = func(tag, kind string, ss grpc.ServerStream) error {
		defer w.Done()
		for {
			var m svc.BV
			err := ss.RecvMsg(&m)
			if err != nil {
				mu.Lock()
				ended[tag] = err
				mu.Unlock()
				if err == io.EOF {
					return ss.SendMsg(&svc.BV{Value: []byte("reply-" + tag)})
				}
				return err
			}
			mu.Lock()
			seen[tag] = append(seen[tag], append([]byte{}, m.Value...))
			mu.Unlock()
		}
	}
	var rmu sync.Mutex
	replies := map[uint64][]*wire.Rpc{}
	wire.NewPeer(ctx, l.A, func(p *wire.Peer, in *wire.Rpc) {
		rmu.Lock()
		replies[in.GetId()] = append(replies[in.GetId()], in)
		rmu.Unlock()
	})
	pos := make([]int, len(lens))
	for _, ci := range order {
		n := pos[ci]
		pos[ci]++
		id := uint64(100 + ci)
		tag := fmt.Sprintf("k%d", ci)
		hdr := &goatorepo.RequestHeader{Method: svc.MClient, Source: "c0", Destination: "srv", Headers: []*goatorepo.KeyValue{{Key: svc.TagKey, Value: tag}}}
		bb := func(x int) *goatorepo.Body {
			b, _ := proto.Marshal(&svc.BV{Value: c05Payload(ci, x)})
			return &goatorepo.Body{Data: b}
		}
		var e *wire.Rpc
		switch {
		case lens[ci] == 1:
			hdr.Method = svc.MUnary
			e = &wire.Rpc{Id: id, Header: hdr, Body: bb(0)}
		case n == 0:
			e = &wire.Rpc{Id: id, Header: hdr}
		case n == lens[ci]-1:
			hdr.Headers = nil
			e = &wire.Rpc{Id: id, Header: hdr, Status: &goatorepo.ResponseStatus{Code: 0, Message: "OK"}, Trailer: &goatorepo.Trailer{}}
		default:
			hdr.Headers = nil
			e = &wire.Rpc{Id: id, Header: hdr, Body: bb(n)}
		}
		if err := l.A.Write(ctx, e); err != nil {
			res.Verdict, res.Note = core.Inconclusive, "scripted client write failed"
			l.Kill()
			return
		}
	}
	st, snap := settle(tier, func() bool {
		if w.Left() != 0 {
			return false
		}
		rmu.Lock()
		defer rmu.Unlock()
		for ci := range lens {
			rs := replies[uint64(100+ci)]
			if len(rs) == 0 || rs[len(rs)-1].GetTrailer() == nil {
				return false
			}
		}
		return true
	})
	if st == "stuck" {
		res.ViolateD("handler-never-completes-under-interleaving", map[string]any{"order": order, "lens": lens, "goat_goroutines": goatParked(snap)}, "interleaving %v of request scripts %v: a handler never completes / reply missing", order, lens)
	} else if st == "timeout" {
		res.Verdict, res.Note = core.Inconclusive, "watchdog"
	} else {
		mu.Lock()
		for ci := range lens {
			tag := fmt.Sprintf("k%d", ci)
			want := 1
			first := 0
			if lens[ci] > 1 {
				want = lens[ci] - 2
				first = 1
			}
			got := seen[tag]
			bad := len(got) != want
			for x := 0; !bad && x < want; x++ {
				bad = string(got[x]) != string(c05Payload(ci, x+first))
			}
			if bad {
				res.Violate("handler-saw-wrong-messages", "interleaving %v of %v: handler %d received %q", order, lens, ci, got)
			}
			if lens[ci] > 1 && ended[tag] != io.EOF {
				res.Violate("handler-saw-wrong-end", "interleaving %v of %v: handler %d ended with %v", order, lens, ci, ended[tag])
			}
		}
		mu.Unlock()
		rmu.Lock()
		for ci := range lens {
			var bv svc.BV
			ok := false
			for _, r := range replies[uint64(100+ci)] {
				if r.GetBody() != nil && proto.Unmarshal(r.GetBody().GetData(), &bv) == nil && string(bv.Value) == fmt.Sprintf("reply-k%d", ci) {
					ok = true
				}
			}
			if !ok {
				res.Violate("reply-on-wrong-id", "interleaving %v of %v: id %d did not get its handler's reply", order, lens, 100+ci)
			}
		}
		rmu.Unlock()
	}
	l.Kill()
	cancel()
}

// ---- id allocation

func c05IDs(tier string, seed int64, idx int, c c05Case, res *core.Result) {
	h := bed.NewHooks()
	h.Jitter = uint64(seed)*3 + uint64(idx) + 1
	h.Install()
	setGMP([]int{2, 4, 16}[idx%3])
	topo, nconn := c.Topo, 1
	if topo == "direct/2" {
		topo, nconn = "direct", 2
	}
	b := bed.New(bed.Opts{Cap: 8, Topology: topo, Clients: nconn})
	cc := b.Conns[0]
	total := 0
	faultsInjected, callsFailed := 0, 0
	endA := b.Links[0].A
	burst := 64
	if c.Topo == "proxy" {
		burst = 12
	}
	rf := rng(seed, idx, "c05faults")
	for total < c.Calls {
		n := burst
		var wg sync.WaitGroup
		start := make(chan struct{})
		errs := make([]error, n)
		if idx%2 == 1 && c.Topo == "" {
			// transport write faults in the middle of the burst: the calls they hit fail, and nothing
			// else may be disturbed (in particular an id must never come back into use)
			w := endA.Writes()
			f1, f2 := w+3+rf.Intn(40), w+50+rf.Intn(40)
			endA.FailWritesAt(f1, f2)
			faultsInjected += 2
		}
		for i := 0; i < n; i++ {
			wg.Add(1)
			go func(i int) {
				defer wg.Done()
				tag := fmt.Sprintf("id-%d-%d", total, i)
				<-start
				if i%3 == 0 {
					s, err := svc.Open(context.Background(), b.Conns[i%nconn], "bidi", tag, nil)
					if err != nil {
						errs[i] = err
						return
					}
					pl := c05Big("p-"+tag, i)
					if err := s.Send(pl); err != nil {
						errs[i] = err
						return
					}
					got, err := s.Recv()
					if err != nil || string(got) != string(pl) {
						errs[i] = fmt.Errorf("stream %s: echoed %q err %v", tag, got, err)
						return
					}
					if err := s.CloseSend(); err != nil {
						errs[i] = err
						return
					}
					if _, err := s.Recv(); err != io.EOF {
						errs[i] = fmt.Errorf("stream %s: end %v", tag, err)
					}
					return
				}
				want := c05Big("p-"+tag, i)
				got, err := svc.Invoke(context.Background(), b.Conns[i%nconn], tag, want)
				if err != nil {
					errs[i] = err
				} else if string(got) != string(want) {
					errs[i] = fmt.Errorf("unary %s: got %d bytes starting %q", tag, len(got), trunc(string(got)))
				}
			}(i)
		}
		done := make(chan struct{})
		go func() { wg.Wait(); close(done) }()
		close(start)
		st, snap := settle(tier, func() bool {
			select {
			case <-done:
				return true
			default:
				return false
			}
		})
		if st != "ok" {
			if st == "stuck" {
				res.ViolateD("call-never-returns", map[string]any{"goat_goroutines": goatParked(snap)}, "a call of a 64-caller burst never returned")
			} else {
				res.Verdict, res.Note = core.Inconclusive, "watchdog"
			}
			break
		}
		for _, e := range errs {
			if e != nil {
				if strings.Contains(e.Error(), "injected transport write failure") {
					callsFailed++ // hit by an injected fault: allowed to fail with that error
					continue
				}
				res.Violate("call-observed-foreign-data", "%v", e)
			}
		}
		total += n
	}
	// pairs of one unary call and one stream open started at the very same instant (a spin barrier,
	// not a channel): ids allocated by the two kinds of call must never coincide
	if prev := runtime.GOMAXPROCS(0); prev < 4 {
		runtime.GOMAXPROCS(4) // two spinning starters plus the driver and the library's goroutines
		defer runtime.GOMAXPROCS(prev)
	}
	for k := 0; k < 4000 && nconn == 1 && c.Topo == "" && len(res.Violations) == 0 && res.Verdict == core.Held; k++ {
		var ready, goNow atomic.Int32
		var wg sync.WaitGroup
		errs := make([]error, 2)
		wg.Add(2)
		go func() {
			defer wg.Done()
			ready.Add(1)
			for goNow.Load() == 0 {
			}
			tag := fmt.Sprintf("id-pair-%d-u", k)
			got, err := svc.Invoke(context.Background(), cc, tag, []byte(tag))
			if err != nil || string(got) != tag {
				errs[0] = fmt.Errorf("unary %s: got %q err %v", tag, got, err)
			}
		}()
		go func() {
			defer wg.Done()
			ready.Add(1)
			for goNow.Load() == 0 {
			}
			tag := fmt.Sprintf("id-pair-%d-s", k)
			s, err := svc.Open(context.Background(), cc, "bidi", tag, nil)
			if err == nil {
				err = s.Send([]byte(tag))
			}
			var got []byte
			if err == nil {
				got, err = s.Recv()
			}
			if err != nil || string(got) != tag {
				errs[1] = fmt.Errorf("stream %s: echoed %q err %v", tag, got, err)
				return
			}
			s.CloseSend()
			s.Recv()
		}()
		for ready.Load() < 2 {
			runtime.Gosched()
		}
		goNow.Store(1)
		done := make(chan struct{})
		go func() { wg.Wait(); close(done) }()
		st, snap := "ok", (*quiesce.Snapshot)(nil)
		select {
		case <-done: // the usual case, without any snapshot
		case <-time.After(2 * time.Second):
			st, snap = settle(tier, func() bool {
				select {
				case <-done:
					return true
				default:
					return false
				}
			})
		}
		if st == "stuck" {
			res.ViolateD("call-never-returns", map[string]any{"goat_goroutines": goatParked(snap)}, "a unary call and a stream open started at the same instant: one of them never returns")
			break
		} else if st != "ok" {
			res.Verdict, res.Note = core.Inconclusive, "watchdog"
			break
		}
		for _, e := range errs {
			if e != nil {
				res.Violate("call-observed-foreign-data", "%v", e)
			}
		}
		total += 2
		res.Stat("simultaneous_unary_stream_pairs", 1)
	}
	// a half-close that reaches the server after the handler has returned (the caller cannot know
	// yet: the trailer is still in the server's writer) belongs to the finished call, not to a new one
	if nconn == 1 && c.Topo == "" && len(res.Violations) == 0 && res.Verdict == core.Held {
		var armed atomic.Bool
		parked := make(chan struct{}, 1)
		release := make(chan struct{})
		h.On("srv.writer.beforeWrite", func(uint64) {
			if armed.CompareAndSwap(true, false) {
				parked <- struct{}{}
				<-release
			}
		})
		tag := "id-late-halfclose"
		b.Impl.SetStream(tag, func(t, k string, ss grpc.ServerStream) error { return nil })
		before := b.Impl.Invoked()["s:"]
		armed.Store(true)
		s, err := svc.Open(context.Background(), cc, "bidi", tag, nil)
		if err == nil {
			if st, _ := settle(tier, func() bool { return len(parked) > 0 }); st == "ok" {
				quiet(tier) // the handler has returned and the stream is closed on the server
				s.CloseSend()
				quiet(tier)
				res.Stat("half_closes_after_server_end", 1)
			}
			close(release)
			s.Recv()
			quiet(tier)
			if n := b.Impl.Invoked()["s:"] - before; n != 0 {
				res.Violate("finished-call-run-again", "the half-close of a call the server had already finished started %d more handler(s) under its id", n)
			}
			total++
		} else {
			close(release)
		}
		h.On("srv.writer.beforeWrite", nil)
	}
	// a transport may report a write as failed although the envelope reached the peer (a context
	// ending while the frame completes: the shipped websocket and HTTP transports do that). The call
	// fails; its id is used up all the same, and the reply that still comes back is nobody's.
	for k := 0; k < 4 && c.Topo == "" && len(res.Violations) == 0 && res.Verdict == core.Held; k++ {
		endA.DeliverButFailWritesAt(endA.Writes())
		faultsInjected++
		tagA, tagB := fmt.Sprintf("id-late-%d-a", k), fmt.Sprintf("id-late-%d-b", k)
		if _, err := svc.Invoke(context.Background(), cc, tagA, []byte("for-a")); err != nil {
			callsFailed++
		}
		quiet(tier) // the reply to the failed call has come back
		got, err := svc.Invoke(context.Background(), cc, tagB, []byte("for-b"))
		if err != nil || string(got) != "for-b" {
			res.Violate("call-observed-foreign-data", "unary %s, issued after a call whose write was reported failed although it was delivered: got %q err %v", tagB, got, err)
		}
		total += 2
		res.Stat("delivered_but_failed_writes", 1)
	}
	// wire: ids pairwise distinct across calls, one tag per id
	idTag := map[uint64]string{}
	tagID := map[string]uint64{}
	for li, l := range b.Links {
		for _, e := range l.Tap.Log() {
			if e.Dir != 0 {
				continue
			}
			e.Rpc.Id += uint64(li) << 40 // one id space per connection
			for _, kv := range e.Rpc.GetHeader().GetHeaders() {
				if kv.Key == svc.TagKey {
					if t, ok := idTag[e.Rpc.GetId()]; ok && t != kv.Value {
						res.Violate("stream-id-reused", "id %d used by calls %s and %s on one connection", e.Rpc.GetId(), t, kv.Value)
					}
					idTag[e.Rpc.GetId()] = kv.Value
					if id, ok := tagID[kv.Value]; ok && id != e.Rpc.GetId() {
						res.Violate("call-uses-two-ids", "call %s used ids %d and %d", kv.Value, id, e.Rpc.GetId())
					}
					tagID[kv.Value] = e.Rpc.GetId()
				}
			}
		}
	}
	if callsFailed > faultsInjected {
		res.Violate("more-calls-failed-than-faults", "%d calls failed for %d injected one-shot write faults", callsFailed, faultsInjected)
	}
	res.Stat("write_faults_injected", int64(faultsInjected))
	res.Stat("calls_failed_by_injected_fault", int64(callsFailed))
	if len(tagID) < total-callsFailed && res.Verdict == core.Held && len(res.Violations) == 0 {
		res.Violate("id-count-mismatch", "%d calls but %d distinct ids on the wire", total, len(idTag))
	}
	res.Stat("ids_checked", int64(len(idTag)))
	res.Stat("calls_in_id_histories", int64(total))
	res.StatMax("max_ids_on_one_connection", int64(len(idTag)))
	res.Evals = int64(total)
	res.NonTrivial = true
	finish(tier, b, h, res)
}

// c05Refused: k concurrent unary calls on one connection; the request metadata of one of them is
// damaged in transit (an undecodable -bin value), so the server refuses it on its own. Every reply
// belongs to the call that owns its identifier: the refused call gets its refusal - not nothing -
// and every other call its own reply.
func c05Refused(tier string, seed int64, idx int, c c05Case, res *core.Result) {
	setGMP([]int{1, 4, 16}[idx%3])
	h := bed.NewHooks()
	h.Install()
	b := bed.New(bed.Opts{Cap: idx % 3, Serialise: idx%2 == 0})
	cc := b.Conns[0]
	victim := fmt.Sprintf("c05r-%d-%d", idx, c.Calls/2)
	b.Links[0].A.SetOnWriteEntry(func(r *wire.Rpc) {
		for _, kv := range r.GetHeader().GetHeaders() {
			if kv.Key == svc.TagKey && kv.Value == victim {
				for _, kv2 := range r.Header.Headers {
					if kv2.Key == "x-bin" {
						kv2.Value = "!!!not base64!!!"
					}
				}
			}
		}
	})
	type out struct {
		tag string
		got []byte
		err error
	}
	results := make(chan out, c.Calls)
	for i := 0; i < c.Calls; i++ {
		tag := fmt.Sprintf("c05r-%d-%d", idx, i)
		go func() {
			ctx := metadata.AppendToOutgoingContext(context.Background(), "x-bin", "\x01\x02")
			var g []byte
			var err error
			if i%2 == 0 {
				g, err = svc.Invoke(ctx, cc, tag, []byte(tag))
			} else {
				g, err = svc.Invoke2(ctx, cc, tag, []byte(tag))
			}
			results <- out{tag, g, err}
		}()
	}
	st, snap := settle(tier, func() bool { return len(results) == c.Calls })
	if st == "stuck" {
		res.ViolateD("refused-call-never-returns", map[string]any{"goat_goroutines": goatParked(snap)}, "%d concurrent unary calls, the request metadata of %s damaged in transit: only %d calls returned (final state) - a reply did not reach the call that owns its id", c.Calls, victim, len(results))
	} else if st == "ok" {
		for i := 0; i < c.Calls; i++ {
			o := <-results
			switch {
			case o.tag == victim && o.err == nil:
				res.Violate("refused-call-answered-ok", "call %s (undecodable request metadata) returned %q without error", o.tag, o.got)
			case o.tag == victim && status.Code(o.err) == codes.DeadlineExceeded:
				res.Violate("refused-call-never-returns", "call %s got %v", o.tag, o.err)
			case o.tag != victim && (o.err != nil || !strings.HasSuffix(string(o.got), o.tag)):
				res.Violate("foreign-or-missing-reply", "call %s (not damaged) got %q err=%v", o.tag, o.got, o.err)
			}
		}
		res.Stat("refused_among_others_cases", 1)
	} else {
		res.Verdict, res.Note = core.Inconclusive, "watchdog"
	}
	res.Evals = int64(c.Calls)
	res.NonTrivial = true
	res.DistinctNT = 1
	finish(tier, b, h, res)
}

func c05Run(tier string, seed int64, idx int) *core.Result {
	c := c05List(tier)[idx]
	res := &core.Result{Verdict: core.Held, Sample: c, Sig: fmt.Sprintf("%+v/%d", c, idx)}
	switch c.Family {
	case "ids":
		c05IDs(tier, seed, idx, c, res)
		return res
	case "refused-among-others":
		c05Refused(tier, seed, idx, c, res)
		return res
	case "websocket":
		wc := wsGen(c.Calls, true)
		res.Sample = wc
		wsWorkload(seed, idx, wc, "isolation", res)
		res.DistinctNT = 1
		return res
	}
	setGMP([]int{1, 1, 4}[idx%3])
	h := bed.NewHooks()
	h.Install()
	perms := interleavings(c.Lens)
	for i := c.From; i < c.To && len(res.Violations) < 10; i++ {
		core.Cursor(fmt.Sprintf("%s lens=%v order=%v", c.Family, c.Lens, perms[i]))
		if c.Family == "client-perm" {
			c05ClientPerm(tier, c.Lens, perms[i], res)
		} else {
			c05ServerPerm(tier, c.Lens, perms[i], res)
		}
	}
	res.Sample = map[string]any{"case": c, "first_interleaving": perms[c.From]}
	res.Evals = int64(c.To - c.From)
	res.DistinctNT = res.Evals
	res.Stat("interleavings_"+c.Family, res.Evals)
	bed.Uninstall()
	h.Fold(res)
	if left, final := bed.Hygiene(watchdog(tier)); !final || len(left) > 0 {
		res.Retire = true
	}
	return res
}

func init() {
	core.Register(&core.Prop{
		ID:         "C05",
		Level:      "exploration",
		Rule:       "(perm) for each configuration of k<=3 (thorough also 4) outstanding calls with per-call scripts of 1 (unary) or 2..6 envelopes, EVERY order-preserving merge (multiset permutation) of the scripts is played on a fresh connection: by a scripted server against a real client (replies, headers, bodies, trailers, distinct statuses per call) and by a scripted client against a real server (requests, opens, bodies, half-closes); each call/handler must observe exactly its own script. (ids) histories of 1280 calls per connection (quick 8, thorough 80 connections), 64 callers released from a barrier per burst, unary and streams mixed, every 4th history through the proxy in bursts of 12, every 4th over two client connections served by one Server object, then 4000 pairs of one unary call and one stream open started at the same instant (spin barrier), a half-close arriving after the server finished the call, and calls whose write is reported failed although it was delivered: ids on the wire pairwise distinct, one id per call, every call sees only its own echo. (websocket) quick 6 / thorough 48 cases of 2..16 unary calls and 2..8 echo streams at once over the shipped websocket transport on loopback sockets with stalling writes, payloads 0..64 KiB: no call or stream sees foreign content (calls that merely fail are counted, not judged here; 30 s wall bound = inconclusive). distinct_nontrivial = interleavings enumerated (all distinct) + id histories. (refused) 4..10 concurrent unary calls on one connection, the request metadata of one of them damaged in transit (undecodable -bin value) so that the server refuses it on its own: the refusal reaches the call that owns its id (an error, not a hang) and every other call gets its own reply.",
		Plan:       func(tier string, seed int64) int { return len(c05List(tier)) },
		Run:        c05Run,
		Exhaustive: func(string) bool { return true },
		MaxStats:   []string{"max_ids_on_one_connection"},
		RequiredStats: func(string) []string {
			return []string{"interleavings_client-perm", "interleavings_server-perm", "ids_checked", "ws_streams_checked", "ws_unary_calls_checked", "delivered_but_failed_writes", "simultaneous_unary_stream_pairs", "half_closes_after_server_end", "refused_among_others_cases"}
		},
		Assumptions: []string{"exhaustive = all interleavings of the listed script-length configurations; id histories are sampled schedules"},
	})
}

// c05Big: every other call carries a payload of 2-5 KiB (above the codec's buffer-pooling
// threshold) that is its tag repeated, so bytes of another call are recognisable.
func c05Big(tag string, i int) []byte {
	if i%2 == 0 {
		return []byte(tag)
	}
	n := 2048 + (i%4)*1024
	return []byte(strings.Repeat(tag+"|", n/(len(tag)+1)+1))[:n]
}

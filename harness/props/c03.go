package props

import (
	"context"
	"errors"
	"fmt"
	"io"
	"math/rand"
	"strings"
	"sync"

	goat "github.com/avos-io/goat"
	"github.com/avos-io/goat/gen/goatorepo"
	"google.golang.org/grpc"
	"google.golang.org/grpc/codes"
	"google.golang.org/grpc/metadata"
	"google.golang.org/grpc/status"
	"google.golang.org/protobuf/proto"
	"google.golang.org/protobuf/types/known/anypb"
	"google.golang.org/protobuf/types/known/wrapperspb"

	"goatverif/bed"
	"goatverif/core"
	"goatverif/svc"
	"goatverif/wire"
)

// C03: status fidelity.

type errSpec struct {
	Kind    string `json:"kind"` // status | wrapped | plain | ctx-canceled | ctx-deadline | ok-status-error | nil
	Code    int    `json:"code"`
	MsgCls  string `json:"msg_class"`
	Details int    `json:"details"`
}

type okStatusErr struct{}

func (okStatusErr) Error() string              { return "error claiming OK" }
func (okStatusErr) GRPCStatus() *status.Status { return status.New(codes.OK, "claims ok") }

func mkMsg(cls string, salt int) string {
	switch cls {
	case "empty":
		return ""
	case "unicode":
		return fmt.Sprintf("fehlgeschlagen ✗ 失敗 %d ☃", salt)
	case "long":
		return strings.Repeat(fmt.Sprintf("long-%d ", salt), 500)
	}
	return fmt.Sprintf("plain message %d", salt)
}

func mkErr(e errSpec, salt int) error {
	msg := mkMsg(e.MsgCls, salt)
	switch e.Kind {
	case "nil":
		return nil
	case "status", "wrapped":
		st := status.New(codes.Code(e.Code), msg)
		if e.Details > 0 {
			var ds []protoadaptV1
			for i := 0; i < e.Details; i++ {
				ds = append(ds, wrapperspb.String(fmt.Sprintf("detail-%d-%d", salt, i)))
			}
			st = withDetails(st, ds)
		}
		if e.Kind == "wrapped" {
			return fmt.Errorf("outer context %d: %w", salt, st.Err())
		}
		return st.Err()
	case "plain":
		return errors.New("plain failure: " + msg)
	case "ctx-canceled":
		return context.Canceled
	case "ctx-deadline":
		return context.DeadlineExceeded
	case "ok-status-error":
		return okStatusErr{}
	case "io-eof":
		return io.EOF // e.g. a handler doing `return err` on stream.Recv() after the half-close
	case "wrapped-io-eof":
		return fmt.Errorf("reading request %d: %w", salt, io.EOF)
	}
	return nil
}

type protoadaptV1 = proto.Message

func withDetails(st *status.Status, ds []proto.Message) *status.Status {
	p := st.Proto()
	for _, d := range ds {
		a, err := anypb.New(d)
		if err != nil {
			panic(err)
		}
		p.Details = append(p.Details, a)
	}
	return status.FromProto(p)
}

// checkStatus compares what the caller observed with the handler's error.
func checkStatus(e errSpec, herr error, observed error) (ok bool, why string) {
	if herr == nil {
		if observed == nil || observed == io.EOF {
			return true, ""
		}
		return false, fmt.Sprintf("handler succeeded but caller observed %v", observed)
	}
	if observed == nil || observed == io.EOF {
		return false, fmt.Sprintf("handler failed with %q but caller observed success (%v)", herr.Error(), observed)
	}
	got, _ := status.FromError(observed)
	if got.Code() == codes.OK {
		return false, fmt.Sprintf("caller observed an error with OK code: %v", observed)
	}
	switch e.Kind {
	case "status", "wrapped":
		var gs interface{ GRPCStatus() *status.Status }
		errors.As(herr, &gs)
		want := gs.GRPCStatus()
		if got.Code() != want.Code() {
			return false, fmt.Sprintf("code %v, want %v", got.Code(), want.Code())
		}
		if e.Kind == "status" {
			if got.Message() != want.Message() {
				return false, fmt.Sprintf("message differs (%d vs %d bytes)", len(got.Message()), len(want.Message()))
			}
		} else if got.Message() != want.Message() && got.Message() != herr.Error() {
			return false, fmt.Sprintf("message %q is neither the inner nor the outer text", trunc(got.Message()))
		}
		gd, wd := got.Proto().GetDetails(), want.Proto().GetDetails()
		if len(gd) != len(wd) {
			return false, fmt.Sprintf("%d details, want %d", len(gd), len(wd))
		}
		for i := range gd {
			if !proto.Equal(gd[i], wd[i]) {
				return false, fmt.Sprintf("detail %d differs", i)
			}
		}
	case "plain", "ctx-canceled", "ctx-deadline", "io-eof", "wrapped-io-eof":
		if !strings.Contains(got.Message(), herr.Error()) {
			return false, fmt.Sprintf("message %q does not carry the error text %q", trunc(got.Message()), trunc(herr.Error()))
		}
	case "ok-status-error":
		// any non-OK status
	}
	return true, ""
}

func trunc(s string) string {
	if len(s) > 80 {
		return s[:80] + "..."
	}
	return s
}

type c03RPC struct {
	Kind     string  `json:"rpc_kind"` // unary | client | server | bidi
	Err      errSpec `json:"error"`
	Position string  `json:"position,omitempty"` // before | between | after
	WithBody bool    `json:"unary_error_with_body,omitempty"`
}

type c03Case struct {
	Family string   `json:"family"` // matrix | race | foreign
	RPCs   []c03RPC `json:"rpcs,omitempty"`
	// race family
	RaceKind string  `json:"race_kind,omitempty"`
	Late     int     `json:"late_bodies,omitempty"`
	RaceErr  errSpec `json:"race_error,omitempty"`
	// foreign family
	Foreign string `json:"foreign,omitempty"`
	Ser     bool   `json:"serialising"`
}

var c03Foreign = []string{"unary-explicit-ok-with-body", "unary-ok-status-no-body", "stream-trailer-explicit-ok", "stream-trailer-status-no-metadata",
	"stream-reset-with-trailer", "stream-reset-bare", "stream-reset-after-body", "unary-nonok-with-body", "stream-error-trailer-with-details",
	"stream-reset-untyped-with-trailer", "stream-reset-untyped-bare", "stream-reset-lowercase-type-with-trailer", "stream-reset-lowercase-type-after-body",
	"unary-answered-by-reset", "unary-answered-by-bare-trailer"}

func c03Gen(tier string, seed int64, idx int) c03Case {
	r := rng(seed, idx, "c03")
	c := c03Case{Ser: r.Intn(2) == 0}
	per := 24
	switch idx % 8 {
	case 6:
		c.Family = "race"
		c.RaceKind = []string{"client", "bidi"}[r.Intn(2)]
		c.Late = 1 + r.Intn(4)
		c.RaceErr = errSpec{Kind: "status", Code: 1 + r.Intn(16), MsgCls: "plain", Details: r.Intn(3)}
		return c
	case 4:
		if (idx/8)%2 == 0 {
			c.Family = "loss-before-trailer"
			c.RaceKind = []string{"server", "bidi"}[r.Intn(2)]
			c.RaceErr = errSpec{Kind: "status", Code: 1 + r.Intn(16), MsgCls: "plain"}
			c.Foreign = []string{"io.EOF", "wrapped-io.EOF", "custom", "context.Canceled"}[(idx/16)%4]
			return c
		}
	case 5:
		c.Family = "loss-after-trailer"
		c.RaceKind = []string{"server", "bidi"}[r.Intn(2)]
		c.RaceErr = errSpec{Kind: "status", Code: 1 + r.Intn(16), MsgCls: []string{"plain", "unicode"}[r.Intn(2)], Details: r.Intn(3)}
		c.Late = 1 // one message before failing: message + trailer fit the client's queues while the caller is slow
		return c
	case 7:
		c.Family = "foreign"
		c.Foreign = c03Foreign[(idx/8)%len(c03Foreign)]
		return c
	}
	c.Family = "matrix"
	kinds := []string{"unary", "client", "server", "bidi"}
	ekinds := []string{"status", "status", "status", "wrapped", "plain", "ctx-canceled", "ctx-deadline", "ok-status-error", "nil", "io-eof", "wrapped-io-eof"}
	for i := 0; i < per; i++ {
		n := idx*per + i
		rp := c03RPC{Kind: kinds[n%4]}
		rp.Err.Kind = ekinds[(n/4)%len(ekinds)]
		rp.Err.Code = 1 + (n/44)%16 // all 16 non-OK codes
		rp.Err.MsgCls = []string{"plain", "empty", "unicode", "long"}[r.Intn(4)]
		rp.Err.Details = r.Intn(4)
		rp.Position = []string{"before", "between", "after"}[r.Intn(3)]
		rp.WithBody = r.Intn(4) == 0
		c.RPCs = append(c.RPCs, rp)
	}
	return c
}

func c03Run(tier string, seed int64, idx int) *core.Result {
	c := c03Gen(tier, seed, idx)
	res := &core.Result{Verdict: core.Held, Sample: c, Sig: fmt.Sprintf("%+v", c), NonTrivial: true}
	switch c.Family {
	case "matrix":
		c03Matrix(tier, seed, idx, c, res)
	case "race":
		c03Race(tier, seed, idx, c, res)
	case "foreign":
		c03ForeignRun(tier, seed, idx, c, res)
	case "loss-after-trailer":
		c03LossAfterTrailer(tier, seed, idx, c, res)
	case "loss-before-trailer":
		c03LossBeforeTrailer(tier, seed, idx, c, res)
	}
	return res
}

// c03LossBeforeTrailer: the handler sends one message and fails, but the connection is lost after
// the message and before the trailer - with whatever error the transport uses for that (io.EOF, a
// wrapped io.EOF, ...). The caller must not observe success: the stream was never completed.
func c03LossBeforeTrailer(tier string, seed int64, idx int, c c03Case, res *core.Result) {
	h := bed.NewHooks()
	h.Install()
	b := bed.New(bed.Opts{Serialise: c.Ser})
	cc := b.Conns[0]
	gates := NewGates()
	tag := fmt.Sprintf("lbt%d", idx)
	herr := mkErr(c.RaceErr, idx)
	hrec := &SideRec{}
	hops := []Op{{Op: "send", N: 1, Size: 17}, {Op: "ret", Err: herr}}
	if c.RaceKind == "server" {
		hops = append([]Op{{Op: "recv", N: 1}}, hops...)
	}
	b.Impl.SetStream(tag, func(t, k string, ss grpc.ServerStream) error { return runHandlerProg(ss, t, hops, hrec, gates) })
	end := b.Links[0].A
	end.SetReadErr(c09ReadErr(c.Foreign))
	end.FailReadAfter(1) // the message arrives, the trailer never does
	end.SetOnRead(func(n int) {
		if n >= 1 {
			end.Discard()
		}
	})
	cr := StartClient(context.Background(), func() {}, nil, cc, c.RaceKind, tag, []byte("q"), []Op{{Op: "recvAll"}}, nil, gates, nil, nil)
	st, snap := settle(tier, cr.IsDone)
	if st == "stuck" {
		res.ViolateD("call-never-returns", map[string]any{"goat_goroutines": goatParked(snap)}, "caller never returned after the connection was lost before the trailer")
	} else if st == "timeout" {
		res.Verdict, res.Note = core.Inconclusive, "watchdog"
	} else {
		observed := callerOutcome(cr.Rec)
		if observed == nil || observed == io.EOF {
			res.Violate("connection-loss-reported-as-success/"+c.Foreign, "handler failed with code %d, the connection was lost (%s) before its trailer arrived, and the caller observed %v", c.RaceErr.Code, c.Foreign, observed)
		}
		res.Stat("loss_before_trailer_cases", 1)
	}
	res.Stat("rpcs", 1)
	finish(tier, b, h, res)
}

// c03LossAfterTrailer: the handler sends messages and fails with a status; the caller is slow and
// starts receiving only after the complete response (trailer included) has been read from the
// transport AND the transport has then failed. It must still observe the messages and the
// handler's status (its complete response had been delivered).
func c03LossAfterTrailer(tier string, seed int64, idx int, c c03Case, res *core.Result) {
	h := bed.NewHooks()
	h.Install()
	b := bed.New(bed.Opts{Serialise: c.Ser})
	cc := b.Conns[0]
	gates := NewGates()
	tag := fmt.Sprintf("lat%d", idx)
	herr := mkErr(c.RaceErr, idx)
	hrec := &SideRec{}
	hops := []Op{{Op: "send", N: c.Late, Size: 17}, {Op: "ret", Err: herr}}
	if c.RaceKind == "server" {
		hops = append([]Op{{Op: "recv", N: 1}}, hops...)
	}
	b.Impl.SetStream(tag, func(t, k string, ss grpc.ServerStream) error { return runHandlerProg(ss, t, hops, hrec, gates) })
	// the client's read fails once the whole response (c.Late bodies + trailer) has been read
	b.Links[0].A.FailReadAfter(c.Late + 1)
	b.Links[0].A.SetOnRead(func(n int) {
		if n >= c.Late+1 {
			b.Links[0].A.Discard()
		}
	})
	cops := []Op{{Op: "gate", Gate: "connection-lost"}, {Op: "recvAll"}}
	cr := StartClient(context.Background(), func() {}, nil, cc, c.RaceKind, tag, []byte("q"), cops, nil, gates, nil, nil)
	st, _ := settle(tier, func() bool { return readErrSet(cc) })
	if st != "ok" {
		res.Verdict, res.Note = core.Inconclusive, "transport failure not reached: "+st
		gates.OpenAll()
		finish(tier, b, h, res)
		return
	}
	quiet(tier)
	gates.Open("connection-lost")
	st, snap := settle(tier, cr.IsDone)
	if st == "stuck" {
		res.ViolateD("call-never-returns", map[string]any{"goat_goroutines": goatParked(snap)}, "caller never returned after its complete response was delivered and the connection was lost")
	} else if st == "timeout" {
		res.Verdict, res.Note = core.Inconclusive, "watchdog"
	} else {
		observed := callerOutcome(cr.Rec)
		if ok, why := seqEqual(cr.Rec.Recvd, hrec.Sent); !ok {
			res.Violate("messages-lost-with-connection-after-complete-response", "response was completely delivered before the connection failed, but the caller received a different sequence: %s", why)
		}
		if ok, why := checkStatus(c.RaceErr, herr, observed); !ok {
			res.Violate("status-lost-with-connection-after-complete-response/"+c.RaceKind, "handler failed with code %d after %d messages; trailer delivered, then the connection failed, then the caller received: %s", c.RaceErr.Code, c.Late, why)
		}
		res.Stat("loss_after_trailer_cases", 1)
	}
	res.Stat("rpcs", 1)
	finish(tier, b, h, res)
}

func c03Matrix(tier string, seed int64, idx int, c c03Case, res *core.Result) {
	h := bed.NewHooks()
	h.Jitter = uint64(idx) + 11
	h.Install()
	// every other matrix case runs behind pass-through server interceptors (plain or chained): the
	// status must come through them unchanged
	var sopts []goat.ServerOption
	passU := func(ctx context.Context, req any, info *grpc.UnaryServerInfo, handler grpc.UnaryHandler) (any, error) {
		return handler(ctx, req)
	}
	passS := func(srv any, ss grpc.ServerStream, info *grpc.StreamServerInfo, handler grpc.StreamHandler) error {
		return handler(srv, ss)
	}
	switch (idx / 8) % 4 {
	case 1:
		sopts = []goat.ServerOption{goat.UnaryInterceptor(passU), goat.StreamInterceptor(passS)}
		res.Stat("cases_with_server_interceptors", 1)
	case 3:
		sopts = []goat.ServerOption{goat.ChainUnaryInterceptor(passU, passU), goat.ChainStreamInterceptor(passS, passS)}
		res.Stat("cases_with_server_interceptors", 1)
	}
	b := bed.New(bed.Opts{Serialise: c.Ser, Cap: idx % 3, SrvOpts: sopts})
	cc := b.Conns[0]
	gates := NewGates()
	for i, rp := range c.RPCs {
		tag := fmt.Sprintf("m%d-%d", idx, i)
		herr := mkErr(rp.Err, idx*100+i)
		var observed error
		done := make(chan struct{})
		hrec := &SideRec{}
		// every third RPC also carries binary response metadata, set the way an application may
		// (an MD literal with a mixed-case key, bytes that are not themselves base64): whatever
		// happens to the metadata, the status must come through
		var binMD metadata.MD
		if i%3 == 1 {
			binMD = metadata.MD{"Checksum-Bin": {"\xfb\xff\x01 raw"}}
			res.Stat("rpcs_with_binary_response_metadata", 1)
		}
		switch rp.Kind {
		case "unary":
			b.Impl.SetUnary(tag, func(ctx context.Context, tag string, req []byte) ([]byte, error) {
				if binMD != nil {
					grpc.SetTrailer(ctx, binMD)
				}
				if herr != nil {
					if rp.WithBody {
						return []byte("body-with-error"), herr
					}
					return nil, herr
				}
				return req, nil
			})
			go func() {
				defer close(done)
				got, err := svc.Invoke(context.Background(), cc, tag, []byte("req-"+tag))
				observed = err
				if err == nil && string(got) != "req-"+tag {
					observed = fmt.Errorf("wrong reply %q", got)
				}
			}()
		default:
			var hops, cops []Op
			retOp := Op{Op: "ret", Err: herr}
			switch rp.Kind {
			case "client":
				switch rp.Position {
				case "before":
					hops = []Op{retOp}
				case "between":
					hops = []Op{{Op: "recv", N: 2}, retOp}
				default:
					hops = []Op{{Op: "recvAll"}, retOp}
				}
				if herr == nil {
					hops = []Op{{Op: "recvAll"}, {Op: "send", N: 1, Size: 17}}
				}
				cops = []Op{{Op: "send", N: 4, Size: 17}, {Op: "closeSend"}, {Op: "recv", N: 1}, {Op: "recvAll"}}
			case "server":
				switch rp.Position {
				case "before":
					hops = []Op{{Op: "recv", N: 1}, retOp}
				case "between":
					hops = []Op{{Op: "recv", N: 1}, {Op: "send", N: 2, Size: 17}, retOp}
				default:
					hops = []Op{{Op: "recv", N: 1}, {Op: "send", N: 4, Size: 17}, retOp}
				}
				cops = []Op{{Op: "recvAll"}}
			case "bidi":
				switch rp.Position {
				case "before":
					hops = []Op{retOp}
				case "between":
					hops = []Op{{Op: "recv", N: 1}, {Op: "send", N: 1, Size: 17}, {Op: "recv", N: 1}, retOp}
				default:
					hops = []Op{{Op: "echo"}, retOp}
				}
				cops = []Op{{Op: "send", N: 1, Size: 17}, {Op: "recv", N: 1}, {Op: "send", N: 1, Size: 17}, {Op: "closeSend"}, {Op: "recvAll"}}
				if rp.Position == "before" {
					cops = []Op{{Op: "send", N: 2, Size: 17}, {Op: "closeSend"}, {Op: "recvAll"}}
				}
			}
			b.Impl.SetStream(tag, func(tag, kind string, ss grpc.ServerStream) error {
				if binMD != nil {
					if i%2 == 0 {
						ss.SetHeader(binMD)
					} else {
						ss.SetTrailer(binMD)
					}
				}
				return runHandlerProg(ss, tag, hops, hrec, gates)
			})
			cr := StartClient(context.Background(), func() {}, nil, cc, rp.Kind, tag, []byte("r"), cops, nil, gates, nil, nil)
			go func() {
				defer close(done)
				cr.wg.Wait()
				observed = callerOutcome(cr.Rec)
			}()
		}
		st, snap := settle(tier, func() bool {
			select {
			case <-done:
				return true
			default:
				return false
			}
		})
		if st != "ok" {
			if st == "stuck" {
				res.ViolateD("call-never-returns", map[string]any{"goat_goroutines": goatParked(snap)}, "%s RPC with handler error %+v never returned", rp.Kind, rp.Err)
			} else {
				res.Verdict, res.Note = core.Inconclusive, "watchdog"
			}
			break
		}
		if ok, why := checkStatus(rp.Err, herr, observed); !ok {
			res.Violate(fmt.Sprintf("status-mismatch/%s/%s", rp.Kind, rp.Err.Kind), "%s RPC (position %s, error kind %s, code %d): %s", rp.Kind, rp.Position, rp.Err.Kind, rp.Err.Code, why)
		}
		res.Stat("rpcs", 1)
		res.SetAdd("codes_seen", codes.Code(rp.Err.Code).String())
		res.SetAdd("error_kinds", rp.Err.Kind)
	}
	res.Evals = int64(len(c.RPCs))
	finish(tier, b, h, res)
}

// c03Race: the handler fails while the caller is still sending; the trailer is
// held by the server's writer goroutine (between dequeue and write) while the
// late bodies arrive, so that their resets race it.
func c03Race(tier string, seed int64, idx int, c c03Case, res *core.Result) {
	h := bed.NewHooks()
	hrec := &SideRec{}
	release := make(chan struct{})
	var parked sync.Once
	parkedCh := make(chan struct{})
	h.On("srv.writer.beforeWrite", func(id uint64) {
		hrec.mu.Lock()
		d := hrec.Done
		hrec.mu.Unlock()
		if d {
			fired := false
			parked.Do(func() { fired = true; close(parkedCh) })
			if fired {
				<-release
			}
		}
	})
	h.Install()
	b := bed.New(bed.Opts{Serialise: c.Ser})
	cc := b.Conns[0]
	gates := NewGates()
	tag := fmt.Sprintf("race%d", idx)
	herr := mkErr(c.RaceErr, idx)
	b.Impl.SetStream(tag, func(tag, kind string, ss grpc.ServerStream) error {
		return runHandlerProg(ss, tag, []Op{{Op: "recv", N: 1}, {Op: "ret", Err: herr}}, hrec, gates)
	})
	cops := []Op{{Op: "send", N: 1, Size: 17}, {Op: "gate", Gate: "trailer-held"}, {Op: "send", N: c.Late, Size: 17}, {Op: "closeSend"}}
	if c.RaceKind == "client" {
		cops = append(cops, Op{Op: "recv", N: 1})
	} else {
		cops = append(cops, Op{Op: "recvAll"})
	}
	cr := StartClient(context.Background(), func() {}, nil, cc, c.RaceKind, tag, nil, cops, nil, gates, nil, nil)
	// stage 1: trailer parked in the writer
	st, _ := settle(tier, func() bool {
		select {
		case <-parkedCh:
			return gates.Reached("trailer-held")
		default:
			return false
		}
	})
	if st != "ok" {
		res.Verdict, res.Note = core.Inconclusive, "writer rendezvous not reached: "+st
		close(release)
		gates.OpenAll()
		finish(tier, b, h, res)
		return
	}
	res.Stat("trailer_held_in_writer", 1)
	gates.Open("trailer-held")
	// stage 2: late bodies are sent (each answered by a reset) until nothing moves, then the writer goes on
	quiet(tier)
	close(release)
	st, snap := settle(tier, cr.IsDone)
	if st == "stuck" {
		res.ViolateD("call-never-returns", map[string]any{"goat_goroutines": goatParked(snap)}, "caller never returned after handler failure raced late bodies")
	} else if st == "timeout" {
		res.Verdict, res.Note = core.Inconclusive, "watchdog"
	} else {
		observed := callerOutcome(cr.Rec)
		if ok, why := checkStatus(c.RaceErr, herr, observed); !ok {
			res.Violate("status-lost-to-reset-race/"+c.RaceKind, "handler failed with code %d while %d late bodies were in flight: %s", c.RaceErr.Code, c.Late, why)
		}
	}
	res.Stat("rpcs", 1)
	finish(tier, b, h, res)
}

func c03ForeignRun(tier string, seed int64, idx int, c c03Case, res *core.Result) {
	l := wire.NewLink(1, c.Ser)
	ctx, cancel := context.WithCancel(context.Background())
	defer cancel()
	hdr := func(in *wire.Rpc) *goatorepo.RequestHeader {
		return &goatorepo.RequestHeader{Method: in.GetHeader().GetMethod(), Source: in.GetHeader().GetDestination(), Destination: in.GetHeader().GetSource()}
	}
	body := func(s string) *goatorepo.Body {
		b, _ := proto.Marshal(&svc.BV{Value: []byte(s)})
		return &goatorepo.Body{Data: b}
	}
	okSt := &goatorepo.ResponseStatus{Code: 0, Message: "OK"}
	det, _ := anypb.New(wrapperspb.String("d"))
	react := func(p *wire.Peer, in *wire.Rpc) {
		id := in.GetId()
		switch c.Foreign {
		case "unary-explicit-ok-with-body":
			p.Send(ctx, &wire.Rpc{Id: id, Header: hdr(in), Status: okSt, Body: body("fine"), Trailer: &goatorepo.Trailer{}})
		case "unary-ok-status-no-body":
			p.Send(ctx, &wire.Rpc{Id: id, Header: hdr(in), Status: okSt, Trailer: &goatorepo.Trailer{}})
		case "unary-nonok-with-body":
			p.Send(ctx, &wire.Rpc{Id: id, Header: hdr(in), Status: &goatorepo.ResponseStatus{Code: 9, Message: "nope"}, Body: body("x"), Trailer: &goatorepo.Trailer{}})
		case "unary-answered-by-reset":
			// what goat's own server sends when the method is a streaming one: the call was reset
			p.Send(ctx, &wire.Rpc{Id: id, Header: hdr(in), Reset_: &goatorepo.Reset{Type: "RST_STREAM"}, Trailer: &goatorepo.Trailer{}})
		case "unary-answered-by-bare-trailer":
			p.Send(ctx, &wire.Rpc{Id: id, Header: hdr(in), Trailer: &goatorepo.Trailer{}})
		default:
			if in.GetBody() != nil || in.GetTrailer() != nil || in.GetReset_() != nil {
				return // react to the open envelope only
			}
			switch c.Foreign {
			case "stream-trailer-explicit-ok":
				p.Send(ctx, &wire.Rpc{Id: id, Header: hdr(in), Body: body("m1")},
					&wire.Rpc{Id: id, Header: hdr(in), Status: okSt, Trailer: &goatorepo.Trailer{}})
			case "stream-trailer-status-no-metadata":
				p.Send(ctx, &wire.Rpc{Id: id, Header: hdr(in), Status: &goatorepo.ResponseStatus{Code: 5, Message: "missing"}, Trailer: &goatorepo.Trailer{}})
			case "stream-error-trailer-with-details":
				p.Send(ctx, &wire.Rpc{Id: id, Header: hdr(in), Status: &goatorepo.ResponseStatus{Code: 3, Message: "bad", Details: []*anypb.Any{det}}, Trailer: &goatorepo.Trailer{}})
			case "stream-reset-with-trailer":
				p.Send(ctx, &wire.Rpc{Id: id, Header: hdr(in), Reset_: &goatorepo.Reset{Type: "RST_STREAM"}, Trailer: &goatorepo.Trailer{}})
			case "stream-reset-bare":
				p.Send(ctx, &wire.Rpc{Id: id, Header: hdr(in), Reset_: &goatorepo.Reset{Type: "RST_STREAM"}})
			case "stream-reset-after-body":
				p.Send(ctx, &wire.Rpc{Id: id, Header: hdr(in), Body: body("m1")},
					&wire.Rpc{Id: id, Header: hdr(in), Reset_: &goatorepo.Reset{Type: "RST_STREAM"}, Trailer: &goatorepo.Trailer{}})
			// a foreign implementation need not spell the reset's type the way goat's server does
			case "stream-reset-untyped-with-trailer":
				p.Send(ctx, &wire.Rpc{Id: id, Header: hdr(in), Reset_: &goatorepo.Reset{}, Trailer: &goatorepo.Trailer{}})
			case "stream-reset-untyped-bare":
				p.Send(ctx, &wire.Rpc{Id: id, Header: hdr(in), Reset_: &goatorepo.Reset{}})
			case "stream-reset-lowercase-type-with-trailer":
				p.Send(ctx, &wire.Rpc{Id: id, Header: hdr(in), Reset_: &goatorepo.Reset{Type: "rst_stream"}, Trailer: &goatorepo.Trailer{}})
			case "stream-reset-lowercase-type-after-body":
				p.Send(ctx, &wire.Rpc{Id: id, Header: hdr(in), Body: body("m1")},
					&wire.Rpc{Id: id, Header: hdr(in), Reset_: &goatorepo.Reset{Type: "rst_stream"}, Trailer: &goatorepo.Trailer{}})
			}
		}
	}
	wire.NewPeer(ctx, l.B, react)
	cc := goat.NewClientConn(l.A, "c0", "srv")
	var observed error
	var got [][]byte
	done := make(chan struct{})
	go func() {
		defer close(done)
		if strings.HasPrefix(c.Foreign, "unary") {
			g, err := svc.Invoke(context.Background(), cc, "f", []byte("q"))
			observed = err
			got = [][]byte{g}
			return
		}
		kind := []string{"bidi", "server", "client"}[idx%3]
		s, err := svc.Open(context.Background(), cc, kind, "f", []byte("q"))
		if err != nil {
			observed = err
			return
		}
		for {
			m, err := s.Recv()
			if err != nil {
				observed = err
				return
			}
			got = append(got, m)
		}
	}()
	st, snap := settle(tier, func() bool {
		select {
		case <-done:
			return true
		default:
			return false
		}
	})
	switch st {
	case "stuck":
		res.ViolateD("foreign-reply-call-never-returns/"+c.Foreign, map[string]any{"goat_goroutines": goatParked(snap)}, "call answered by a foreign peer with %s never returns", c.Foreign)
	case "timeout":
		res.Verdict, res.Note = core.Inconclusive, "watchdog"
	default:
		code := status.Code(observed)
		switch c.Foreign {
		case "unary-explicit-ok-with-body":
			if observed != nil || len(got) != 1 || string(got[0]) != "fine" {
				res.Violate("explicit-ok-not-success", "unary reply with explicit OK status and a body: observed err=%v reply=%q, want success with the body", observed, got)
			}
		case "unary-ok-status-no-body":
			// no body: the README allows an empty body; success with empty reply or an error are both tolerated, a crash is not
		case "unary-answered-by-reset":
			if observed == nil {
				res.Violate("peer-reset-reported-as-success/"+c.Foreign, "a unary call answered with a reset returned success (reply %q)", got)
			}
		case "unary-answered-by-bare-trailer":
			// neither a reply nor a status: nothing the caller could take for the handler's result
			if observed == nil && len(got) == 1 && len(got[0]) > 0 {
				res.Violate("reply-invented", "a unary call answered with a bare trailer returned a non-empty reply %q", got[0])
			}
		case "unary-nonok-with-body":
			if code != codes.FailedPrecondition {
				res.Violate("nonok-status-lost", "unary reply with status 9 and a body: observed %v", observed)
			}
		case "stream-trailer-explicit-ok":
			if observed != io.EOF || len(got) != 1 || string(got[0]) != "m1" {
				res.Violate("explicit-ok-not-success", "stream ended by an explicit-OK trailer: observed %v after %d messages, want io.EOF after 1", observed, len(got))
			}
		case "stream-trailer-status-no-metadata":
			if code != codes.NotFound {
				res.Violate("status-lost", "trailer with status 5 and no metadata: observed %v", observed)
			}
		case "stream-error-trailer-with-details":
			s, _ := status.FromError(observed)
			if code != codes.InvalidArgument || len(s.Proto().GetDetails()) != 1 {
				res.Violate("status-lost", "trailer with status 3 and one detail: observed %v", observed)
			}
		default: // resets
			if observed == nil || observed == io.EOF || code == codes.OK {
				res.Violate("peer-reset-reported-as-success/"+c.Foreign, "stream reset by the peer (%s): caller observed %v, want a non-OK status", c.Foreign, observed)
			}
		}
	}
	res.Stat("rpcs", 1)
	res.Stat("foreign_cases", 1)
	res.SetAdd("foreign_shapes", c.Foreign)
	l.Kill()
	cancel()
	if left, final := bed.Hygiene(watchdog(tier)); !final || len(left) > 0 {
		res.Retire = true
	}
	_ = rand.Int
}

func init() {
	core.Register(&core.Prop{
		ID:             "C03",
		Level:          "exploration",
		Rule:           "cases: (matrix) 24 RPCs per case cycling 4 RPC kinds x 11 error kinds (status x3, wrapped status, plain, context canceled/deadline, error whose GRPCStatus says OK, nil, io.EOF, wrapped io.EOF) x all 16 non-OK codes x message class {plain, empty, Unicode, 4 KiB} x 0..3 Any details x position {before any message, between, after the last}, unary also with a body alongside the error; (race) handler fails while the caller still sends, the trailer held in the server writer by a rendezvous hook while 1..4 late bodies arrive; (loss-before-trailer) the handler sends a message and fails but the connection is lost - with io.EOF, a wrapped io.EOF, a custom error or context.Canceled - before the trailer arrives: the caller must not observe success; (loss-after-trailer) the handler sends one message and fails; the caller starts receiving only after the complete response was read and the transport then failed: it must still see the messages and the status; (foreign) 15 reply shapes (incl. a unary call answered by a reset) from a scripted peer (explicit OK + body, status without metadata, resets - typed RST_STREAM, untyped, lower-case - with/without trailer / after a body). Every third matrix RPC also sets binary response metadata through an MD literal with a mixed-case -bin key. Half of the matrix cases run behind pass-through server interceptors (plain / chained pairs). Every case is non-trivial; distinct = distinct descriptors.",
		Plan:           func(tier string, seed int64) int { return tierN(tier, 144, 4800) },
		ThoroughRounds: 4,
		Run:            c03Run,
		RequiredStats: func(string) []string {
			return []string{"trailer_held_in_writer", "foreign_cases", "rpcs", "loss_after_trailer_cases", "loss_before_trailer_cases", "cases_with_server_interceptors", "rpcs_with_binary_response_metadata"}
		},
	})
}

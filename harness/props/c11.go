package props

import (
	"context"
	"fmt"
	"sync"
	"time"

	goat "github.com/avos-io/goat"
	"github.com/avos-io/goat/gen/goatorepo"
	"goatverif/quiesce"
	"goatverif/wire"
	"google.golang.org/grpc/metadata"
	"google.golang.org/protobuf/proto"

	"google.golang.org/grpc"
	"google.golang.org/grpc/codes"
	"google.golang.org/grpc/status"

	"goatverif/bed"
	"goatverif/core"
	"goatverif/svc"
)

// C11: an abandoned stream never wedges its connection.

type c11Case struct {
	Mode       string `json:"mode"` // handler-returns-early | caller-cancels-unread | caller-stops-reading-then-cancels
	Kind       string `json:"kind"`
	K          int    `json:"k_consumed"`
	N          int    `json:"n_sent"`
	M          int    `json:"m_unread"`
	Others     int    `json:"other_rpcs_in_flight"`
	HookPlan   string `json:"hook_plan"` // none | jitter | park-unregister | park-client-exit
	HandlerErr bool   `json:"handler_returns_error"`
	Cap        int    `json:"link_capacity"`
	GMP        int    `json:"gomaxprocs"`
}

func c11List(tier string) []c11Case {
	var out []c11Case
	plans := []string{"none", "park-unregister"}
	loads := []int{0, 2}
	if tier == "thorough" {
		plans = []string{"none", "jitter", "park-unregister", "park-client-exit", "jitter2"}
		loads = []int{0, 1, 2, 3, 4}
	}
	i := 0
	for _, plan := range plans {
		for _, load := range loads {
			for _, kind := range []string{"client", "bidi", "server"} {
				// handler returns after k of n
				for n := 1; n <= 8; n++ {
					for k := 0; k < n; k++ {
						if kind == "server" && n > 3 {
							continue // a server-stream caller sends one request; extra bodies are hostile (n<=3 via raw sends)
						}
						i++
						out = append(out, c11Case{Mode: "handler-returns-early", Kind: kind, K: k, N: n, Others: load, HookPlan: plan,
							HandlerErr: i%3 == 0, Cap: []int{0, 4}[i%2], GMP: []int{1, 4, 16}[i%3]})
					}
				}
				if kind == "client" {
					continue
				}
				for m := 0; m <= 8; m++ {
					i++
					out = append(out, c11Case{Mode: "caller-cancels-unread", Kind: kind, M: m, Others: load, HookPlan: plan, Cap: []int{0, 4}[i%2], GMP: []int{1, 4, 16}[i%3]})
				}
			}
		}
	}
	// scripted-server families: the abandonment happens on the client while its own send side is busy
	reps := 1
	if tier == "thorough" {
		reps = 6
	}
	for rp := 0; rp < reps; rp++ {
		for m := 3; m <= 6; m++ {
			i++
			out = append(out, c11Case{Mode: "cancel-while-send-blocked-with-unread", Kind: "bidi", M: m, GMP: []int{1, 4, 16}[i%3]})
			out = append(out, c11Case{Mode: "undecodable-response-then-more", Kind: []string{"bidi", "server"}[i%2], M: m, GMP: []int{1, 4, 16}[(i+1)%3]})
			out = append(out, c11Case{Mode: "unencodable-send-then-more", Kind: "bidi", M: m, GMP: []int{1, 4, 16}[(i+2)%3]})
		}
	}
	for rp := 0; rp < reps; rp++ {
		for m := 2; m <= 5; m++ {
			i++
			out = append(out, c11Case{Mode: "open-reported-failed-but-delivered", Kind: []string{"bidi", "client", "server"}[i%3], M: m, Cap: []int{0, 4}[i%2], GMP: []int{1, 4, 16}[i%3]})
		}
	}
	for k := 0; k < 4*reps; k++ {
		i++
		out = append(out, c11Case{Mode: "live-handler-until-deadline", Kind: []string{"bidi", "client"}[k%2], M: k % 4, Cap: []int{0, 4}[i%2], GMP: []int{1, 4, 16}[i%3]})
	}
	for k := 0; k < 6*reps; k++ {
		out = append(out, c11Case{Mode: "websocket-cancel-mid-write", Kind: "ws"})
	}
	return out
}

// floodPeer is a scripted server: it answers unary calls by echoing, answers a stream open with
// m responses (the first undecodable in mode "undecodable-response-then-more") and, in mode
// "cancel-while-send-blocked-with-unread", stops reading after the open until resume().
type floodPeer struct {
	mu     sync.Mutex
	mode   string
	m      int
	opened int
	paused bool
	wake   chan struct{}
}

func (fp *floodPeer) set(mode string, m int) {
	fp.mu.Lock()
	fp.mode, fp.m = mode, m
	fp.mu.Unlock()
}

func (fp *floodPeer) openedN() int {
	fp.mu.Lock()
	defer fp.mu.Unlock()
	return fp.opened
}

func (fp *floodPeer) resume() {
	fp.mu.Lock()
	if fp.paused {
		fp.paused = false
		close(fp.wake)
	}
	fp.mu.Unlock()
}

func newFloodPeer(ctx context.Context, l *wire.Link) *floodPeer {
	fp := &floodPeer{}
	body := func(s string) *goatorepo.Body {
		b, _ := proto.Marshal(&svc.BV{Value: []byte(s)})
		return &goatorepo.Body{Data: b}
	}
	go func() {
		for {
			fp.mu.Lock()
			var wake chan struct{}
			if fp.paused {
				wake = fp.wake
			}
			fp.mu.Unlock()
			if wake != nil {
				select {
				case <-wake:
				case <-ctx.Done():
					return
				}
			}
			in, err := l.B.Read(ctx)
			if err != nil {
				return
			}
			hd := &goatorepo.RequestHeader{Method: in.GetHeader().GetMethod(), Source: "srv", Destination: "c0"}
			switch {
			case in.GetHeader().GetMethod() == svc.MUnary:
				go l.B.Write(ctx, &wire.Rpc{Id: in.GetId(), Header: hd, Body: in.GetBody(), Trailer: &goatorepo.Trailer{}})
			case in.GetBody() == nil && in.GetTrailer() == nil && in.GetReset_() == nil:
				id := in.GetId()
				fp.mu.Lock()
				fp.opened++
				mode, m := fp.mode, fp.m
				if mode == "cancel-while-send-blocked-with-unread" {
					fp.paused, fp.wake = true, make(chan struct{})
				}
				fp.mu.Unlock()
				go func() {
					for k := 0; k < m; k++ {
						b := body(fmt.Sprintf("resp%d", k))
						if mode == "undecodable-response-then-more" && k == 0 {
							b = &goatorepo.Body{Data: []byte{0x0a, 0xff, 0xff, 0xff, 0xff, 0x0f}}
						}
						if l.B.Write(ctx, &wire.Rpc{Id: id, Header: hd, Body: b}) != nil {
							return
						}
					}
				}()
			}
		}
	}()
	return fp
}

// c11LiveHandlerDeadline: the handler takes one message, then stops consuming and gives up only
// when its context ends; the caller - who attached metadata and a (real) deadline - keeps sending.
// That blocks the connection by design until the deadline, which the server must have received: once
// it has passed, the connection serves again. Real timers are involved, so the verdict is taken only
// well after the deadline (1 s for a 50 ms deadline), when no timer of the scenario is pending.
func c11LiveHandlerDeadline(tier string, seed int64, idx int, c c11Case, res *core.Result) {
	setGMP(c.GMP)
	h := bed.NewHooks()
	h.Install()
	b := bed.New(bed.Opts{Cap: c.Cap, Serialise: idx%2 == 0})
	cc := b.Conns[0]
	tag := fmt.Sprintf("lhd%d", idx)
	b.Impl.SetStream(tag, func(t, k string, ss grpc.ServerStream) error {
		ss.RecvMsg(new(svc.BV))
		<-ss.Context().Done()
		return ss.Context().Err()
	})
	base := context.Background()
	if c.M%2 == 0 {
		base = metadata.AppendToOutgoingContext(base, "request-id", "abc", "trace-bin", "\x01\x02")
	}
	ctx, cancel := context.WithTimeout(base, 50*time.Millisecond)
	defer cancel()
	var w Waiter
	w.Add(1)
	go func() {
		defer w.Done()
		s, err := svc.Open(ctx, cc, c.Kind, tag, nil)
		if err != nil {
			return
		}
		for k := 0; k < 3+c.M; k++ {
			if s.Send([]byte("more")) != nil {
				break
			}
		}
		s.Recv()
	}()
	time.Sleep(time.Second)
	st, snap := settle(tier, func() bool { return w.Left() == 0 })
	if st == "stuck" {
		res.ViolateD("deadline-call-hangs-after-abandoned-stream/live-handler", map[string]any{"goat_goroutines": goatParked(snap)}, "a caller with a 50 ms deadline has not returned a second later (final state)")
	}
	pdone := make(chan error, 1)
	go func() {
		g, err := svc.Invoke(context.Background(), cc, "probe", []byte("probe"))
		if err == nil && string(g) != "probe" {
			err = fmt.Errorf("wrong reply %q", g)
		}
		pdone <- err
	}()
	var perr error
	pgot := false
	stp, snapp := settle(tier, func() bool {
		select {
		case perr = <-pdone:
			pgot = true
		default:
		}
		return pgot
	})
	if stp == "stuck" {
		res.ViolateD("connection-wedged-after-abandoned-stream/"+c.Mode, map[string]any{"goat_goroutines": goatParked(snapp)}, "a handler that stopped consuming and waits for its context, a caller with metadata=%v and a 50 ms deadline that kept sending: a second after the deadline a probe call never completes (final state) - the server never learnt the deadline", c.M%2 == 0)
	} else if stp == "ok" && perr != nil {
		res.Violate("rpc-fails-after-abandoned-stream", "probe failed after %s: %v", c.Mode, perr)
	} else if stp == "ok" {
		res.Stat("probes_completed", 1)
		res.Stat("live_handler_deadline_cases", 1)
	}
	res.Stat("abandonments", 1)
	finish(tier, b, h, res)
}

// c11OpenFailsDelivered: the transport reports the write of a stream's opening envelope as failed
// although the envelope reached the server (a context ending while the frame completes). The
// caller has given the call up; the server's handler nevertheless runs and sends m messages to an
// id nobody is waiting for. The connection must go on serving.
func c11OpenFailsDelivered(tier string, seed int64, idx int, c c11Case, res *core.Result) {
	setGMP(c.GMP)
	h := bed.NewHooks()
	h.Install()
	b := bed.New(bed.Opts{Cap: c.Cap, Serialise: idx%2 == 0})
	cc := b.Conns[0]
	tag := fmt.Sprintf("ofd%d", idx)
	b.Impl.SetStream(tag, func(t, k string, ss grpc.ServerStream) error {
		for i := 0; i < c.M; i++ {
			if ss.SendMsg(&svc.BV{Value: []byte{byte(i)}}) != nil {
				break
			}
		}
		<-ss.Context().Done()
		return nil
	})
	end := b.Links[0].A
	end.DeliverButFailWritesAt(end.Writes())
	if idx%2 == 1 && c.M >= 2 {
		// the transport takes its time to report the failure: meanwhile the handler's first
		// messages arrive for the stream that is still being opened
		tap := b.Links[0].Tap
		end.SetLateFailHold(func() {
			for k := 0; k < 2000; k++ {
				n := 0
				for _, e := range tap.Log() {
					if e.Dir == 1 { // the log holds delivered envelopes only
						n++
					}
				}
				if n >= 2 {
					break
				}
				time.Sleep(time.Millisecond)
			}
			time.Sleep(20 * time.Millisecond)
		})
		res.Stat("open_failure_reported_after_responses", 1)
	}
	opened := make(chan error, 1)
	go func() {
		_, err := svc.Open(context.Background(), cc, c.Kind, tag, []byte("q"))
		opened <- err
	}()
	var oerr error
	got := false
	st, snap := settle(tier, func() bool {
		select {
		case oerr = <-opened:
			got = true
		default:
		}
		return got
	})
	if st == "stuck" {
		res.ViolateD("abandoning-call-never-returns/"+c.Mode, map[string]any{"goat_goroutines": goatParked(snap)}, "NewStream whose opening write was reported failed never returns")
	} else if st == "ok" && oerr == nil {
		res.Stat("open_succeeded_despite_write_error", 1)
	}
	quiet(tier) // the handler's messages have come back for an id nobody owns
	pdone := make(chan error, 1)
	go func() {
		g, err := svc.Invoke(context.Background(), cc, "probe", []byte("probe"))
		if err == nil && string(g) != "probe" {
			err = fmt.Errorf("wrong reply %q", g)
		}
		pdone <- err
	}()
	var perr error
	pgot := false
	stp, snapp := settle(tier, func() bool {
		select {
		case perr = <-pdone:
			pgot = true
		default:
		}
		return pgot
	})
	if stp == "stuck" {
		res.ViolateD("connection-wedged-after-abandoned-stream/"+c.Mode, map[string]any{"goat_goroutines": goatParked(snapp)}, "after a stream open that was reported failed but delivered (handler sent %d messages) a probe call never completes: final state reached", c.M)
	} else if stp == "ok" && perr != nil {
		res.Violate("rpc-fails-after-abandoned-stream", "probe failed after %s: %v", c.Mode, perr)
	} else if stp == "ok" {
		res.Stat("probes_completed", 1)
		res.Stat("opens_failed_but_delivered", 1)
	}
	res.Stat("abandonments", 1)
	finish(tier, b, h, res)
}

// awaitTeardownOrFinal waits until the cancelled call's teardown is writing its reset (a write
// with a real 30 s deadline, which is why a plain wait for a final state would last as long),
// the caller has returned, or a final state is reached.
func awaitTeardownOrFinal(tier string, w *Waiter) {
	quiesce.Wait(watchdog(tier), func() bool {
		return w.Left() == 0 || quiesce.Take().TimerBlocked() != nil
	})
}

// c11Scripted: abandonment scenarios that need a peer behaving in a particular way, played by a
// scripted server against the real client.
func c11Scripted(tier string, seed int64, idx int, c c11Case, res *core.Result) {
	setGMP(c.GMP)
	h := bed.NewHooks()
	h.Install()
	l := wire.NewLink(0, idx%2 == 0)
	ctx, cancel := context.WithCancel(context.Background())
	defer cancel()
	gates := NewGates()
	fp := newFloodPeer(ctx, l)
	fp.set(c.Mode, c.M)
	cc := goat.NewClientConn(l.A, "c0", "srv")
	m := svc.NewManualCtx(context.Background())
	var w Waiter
	w.Add(1)
	var sendErr, recvErr error
	go func() {
		defer w.Done()
		s, err := svc.Open(m, cc, c.Kind, "ab", []byte("q"))
		if err != nil {
			return
		}
		if c.Mode == "cancel-while-send-blocked-with-unread" {
			// never receives; keeps sending until the transport pushes back, then is cancelled
			for k := 0; k < 50; k++ {
				if sendErr = s.Send([]byte("up")); sendErr != nil {
					break
				}
			}
			return
		}
		if c.Mode == "unencodable-send-then-more" {
			// a send the codec cannot encode fails; the caller, told that an error aborts the stream,
			// walks away without receiving or cancelling, while the peer keeps sending
			sendErr = s.SendMsg(struct{ X int }{1})
			return
		}
		// receives; the first response cannot be decoded: the caller treats the stream as aborted
		// (as the API contract says) and simply stops - it does not cancel
		_, recvErr = s.Recv()
	}()
	quiet(tier)
	if fp.openedN() == 0 {
		res.Verdict, res.Note = core.Inconclusive, "stream open did not reach the scripted server"
	}
	if c.Mode == "cancel-while-send-blocked-with-unread" {
		if idx%2 == 1 {
			m.Fire() // the caller's deadline passes while its send is blocked
		} else {
			m.Cancel()
		}
		awaitTeardownOrFinal(tier, &w)
		fp.resume()
	}
	st, snap := settle(tier, func() bool { return w.Left() == 0 })
	if st == "stuck" {
		res.ViolateD("abandoning-call-never-returns/"+c.Mode, map[string]any{"goat_goroutines": goatParked(snap)}, "%s (m=%d): the abandoning caller's own operation never returns", c.Mode, c.M)
	}
	quiet(tier)
	// the connection must still serve other RPCs
	pdone := make(chan error, 1)
	go func() {
		got, err := svc.Invoke(context.Background(), cc, "probe", []byte("probe"))
		if err == nil && string(got) != "probe" {
			err = fmt.Errorf("wrong reply %q", got)
		}
		pdone <- err
	}()
	var perr error
	got := false
	stp, snapp := settle(tier, func() bool {
		select {
		case perr = <-pdone:
			got = true
			return true
		default:
			return got
		}
	})
	if stp == "stuck" {
		res.ViolateD("connection-wedged-after-abandoned-stream/"+c.Mode, map[string]any{"goat_goroutines": goatParked(snapp)}, "after %s (m=%d) a probe call never completes: final state reached", c.Mode, c.M)
	} else if stp == "ok" && perr != nil {
		res.Violate("rpc-fails-after-abandoned-stream", "probe failed after %s: %v", c.Mode, perr)
	} else if stp == "ok" {
		res.Stat("probes_completed", 1)
		res.Stat("scripted_abandonments", 1)
	}
	_ = sendErr
	_ = recvErr
	res.Stat("abandonments", 1)
	m.Cancel()
	gates.OpenAll()
	cancel()
	l.Kill()
	left, final := bed.Hygiene(watchdog(tier))
	bed.Uninstall()
	h.Fold(res)
	if !final || len(left) > 0 {
		res.Retire = true
	}
}

func c11Run(tier string, seed int64, idx int) *core.Result {
	list := c11List(tier)
	c := list[idx]
	if c.Mode == "live-handler-until-deadline" {
		res := &core.Result{Verdict: core.Held, Sample: c, Sig: fmt.Sprintf("%+v/%d", c, idx), NonTrivial: true}
		c11LiveHandlerDeadline(tier, seed, idx, c, res)
		return res
	}
	if c.Mode == "open-reported-failed-but-delivered" {
		res := &core.Result{Verdict: core.Held, Sample: c, Sig: fmt.Sprintf("%+v/%d", c, idx), NonTrivial: true}
		c11OpenFailsDelivered(tier, seed, idx, c, res)
		return res
	}
	if c.Mode == "websocket-cancel-mid-write" {
		res := &core.Result{Verdict: core.Held, Sample: c, Sig: fmt.Sprintf("%+v/%d", c, idx), NonTrivial: true}
		c11WSCancel(tier, seed, idx, res)
		return res
	}
	if c.Mode == "cancel-while-send-blocked-with-unread" || c.Mode == "undecodable-response-then-more" || c.Mode == "unencodable-send-then-more" {
		res := &core.Result{Verdict: core.Held, Sample: c, Sig: fmt.Sprintf("%+v/%d", c, idx), NonTrivial: true}
		c11Scripted(tier, seed, idx, c, res)
		return res
	}
	_ = seed
	res := &core.Result{Verdict: core.Held, Sample: c, Sig: fmt.Sprintf("%+v", c), NonTrivial: true}
	setGMP(c.GMP)
	h := bed.NewHooks()
	if c.HookPlan == "jitter" || c.HookPlan == "jitter2" {
		h.Jitter = uint64(seed)*31 + uint64(idx) + 7
	}
	// rendezvous plans: park the named point until the harness opens the gate
	rvGate := make(chan struct{})
	var rvOnce sync.Once
	openRv := func() { rvOnce.Do(func() { close(rvGate) }) }
	rvHit := false
	var rvMu sync.Mutex
	switch c.HookPlan {
	case "park-unregister":
		h.On("srv.stream.beforeUnregister", func(uint64) { rvMu.Lock(); rvHit = true; rvMu.Unlock(); <-rvGate })
	case "park-client-exit":
		h.On("cs.readloop.exit", func(uint64) { rvMu.Lock(); rvHit = true; rvMu.Unlock(); <-rvGate })
	}
	h.Install()
	b := bed.New(bed.Opts{Cap: c.Cap, Serialise: idx%2 == 0})
	cc := b.Conns[0]

	// other RPCs in flight: unary calls parked in their handlers
	otherGate := make(chan struct{})
	b.Impl.DefU = func(ctx context.Context, tag string, req []byte) ([]byte, error) {
		if len(tag) > 5 && tag[:5] == "other" {
			<-otherGate
		}
		return req, nil
	}
	type callRes struct {
		name string
		req  string
		got  []byte
		err  error
		done bool
	}
	var mu sync.Mutex
	var others []*callRes
	for i := 0; i < c.Others; i++ {
		cr := &callRes{name: fmt.Sprintf("other%d", i), req: fmt.Sprintf("other%d", i)}
		others = append(others, cr)
		go func() {
			got, err := svc.Invoke(context.Background(), cc, cr.name, []byte(cr.name))
			mu.Lock()
			cr.got, cr.err, cr.done = got, err, true
			mu.Unlock()
		}()
	}

	// the abandoned stream
	abTag := fmt.Sprintf("ab-%d", idx)
	handlerDone := make(chan struct{})
	b.Impl.SetStream(abTag, func(tag, kind string, ss grpc.ServerStream) error {
		defer close(handlerDone)
		switch c.Mode {
		case "handler-returns-early":
			for i := 0; i < c.K; i++ {
				var m svc.BV
				if err := ss.RecvMsg(&m); err != nil {
					return err
				}
			}
			if c.HandlerErr {
				return status.Error(codes.FailedPrecondition, "enough")
			}
			return nil
		default: // caller-cancels-unread: send m messages, then wait for cancellation
			if kind == "server" {
				// what protoc-generated server-streaming glue does before calling the handler
				var m svc.BV
				if err := ss.RecvMsg(&m); err != nil {
					return err
				}
			}
			for i := 0; i < c.M; i++ {
				if err := ss.SendMsg(&svc.BV{Value: []byte{byte(i)}}); err != nil {
					return err
				}
			}
			<-ss.Context().Done()
			return ss.Context().Err()
		}
	})
	abCtx, abCancel := context.WithCancel(context.Background())
	defer abCancel()
	abDone := make(chan struct{})
	go func() {
		defer close(abDone)
		desc, method := svc.KindDesc(c.Kind)
		cs, err := cc.NewStream(svc.WithTag(abCtx, abTag), desc, method)
		if err != nil {
			return
		}
		switch c.Mode {
		case "handler-returns-early":
			for i := 0; i < c.N; i++ {
				if err := cs.SendMsg(&svc.BV{Value: msgBytes("ab", 67, i, 8)}); err != nil {
					break
				}
			}
			cs.CloseSend()
			for {
				var m svc.BV
				if err := cs.RecvMsg(&m); err != nil {
					break
				}
			}
		default:
			if c.Kind == "server" {
				cs.SendMsg(&svc.BV{})
				cs.CloseSend()
			}
			// never receive; wait for the cancel below
			<-abCtx.Done()
			var m svc.BV
			cs.RecvMsg(&m)
		}
	}()

	// stage 1: let the abandonment play out until nothing moves
	if c.Mode == "caller-cancels-unread" {
		if ok, _ := quiet(tier); !ok {
			res.Verdict, res.Note = core.Inconclusive, "no final state before cancel"
		}
		abCancel()
	}
	st1, _ := settle(tier, func() bool {
		select {
		case <-abDone:
			select {
			case <-handlerDone:
				rvMu.Lock()
				defer rvMu.Unlock()
				return c.HookPlan != "park-unregister" && c.HookPlan != "park-client-exit" || rvHit
			default:
				return false
			}
		default:
			return false
		}
	})
	_ = st1 // a stuck abandoned call itself is C07's/C03's business; go on to the probes
	if ok, _ := quiet(tier); !ok && res.Verdict == core.Held {
		res.Verdict, res.Note = core.Inconclusive, "no final state after abandonment"
	}
	rvMu.Lock()
	if rvHit {
		res.Stat("rendezvous_fired", 1)
	}
	rvMu.Unlock()
	openRv()

	// stage 2: release the others, start the probes
	close(otherGate)
	probe := &callRes{name: "probe", req: "probe"}
	dprobe := &callRes{name: "deadline-probe", req: "dprobe"}
	go func() {
		got, err := svc.Invoke(context.Background(), cc, "probe", []byte("probe"))
		mu.Lock()
		probe.got, probe.err, probe.done = got, err, true
		mu.Unlock()
	}()
	mctx := svc.NewManualCtx(context.Background())
	go func() {
		got, err := svc.Invoke(mctx, cc, "dprobe", []byte("dprobe"))
		mu.Lock()
		dprobe.got, dprobe.err, dprobe.done = got, err, true
		mu.Unlock()
	}()
	allDone := func(withDeadline bool) bool {
		mu.Lock()
		defer mu.Unlock()
		for _, o := range others {
			if !o.done {
				return false
			}
		}
		if !probe.done {
			return false
		}
		return !withDeadline || dprobe.done
	}
	st, snap := settle(tier, func() bool { return allDone(true) })
	if st == "timeout" {
		res.Verdict, res.Note = core.Inconclusive, "watchdog waiting for probes"
	}
	if st == "stuck" {
		mu.Lock()
		var pend []string
		for _, o := range append(append([]*callRes{}, others...), probe) {
			if !o.done {
				pend = append(pend, o.name)
			}
		}
		dpPending := !dprobe.done
		mu.Unlock()
		if len(pend) > 0 {
			res.ViolateD("connection-wedged-after-abandoned-stream/"+c.Mode, map[string]any{"pending": pend, "goat_goroutines": goatParked(snap)},
				"after %s (%s stream, k=%d n=%d m=%d) the RPCs %v never complete: final state reached with them pending", c.Mode, c.Kind, c.K, c.N, c.M, pend)
		}
		if dpPending {
			mctx.Fire()
			st2, snap2 := settle(tier, func() bool { mu.Lock(); defer mu.Unlock(); return dprobe.done })
			if st2 == "stuck" {
				res.ViolateD("deadline-call-hangs-after-abandoned-stream", map[string]any{"goat_goroutines": goatParked(snap2)},
					"a unary call whose deadline expired does not return on a connection wedged by %s", c.Mode)
			} else if st2 == "ok" {
				mu.Lock()
				if status.Code(dprobe.err) != codes.DeadlineExceeded && dprobe.err != context.DeadlineExceeded {
					res.Violate("deadline-call-wrong-result", "deadline probe returned %v", dprobe.err)
				}
				mu.Unlock()
				res.Stat("deadline_probe_fired", 1)
			}
		}
	}
	if st == "ok" {
		mu.Lock()
		for _, o := range append(append([]*callRes{}, others...), probe, dprobe) {
			if o.err != nil {
				res.Violate("rpc-fails-after-abandoned-stream", "%s failed: %v", o.name, o.err)
			} else if string(o.got) != o.req {
				res.Violate("rpc-wrong-reply-after-abandoned-stream", "%s got %q, want %q", o.name, o.got, o.req)
			}
		}
		mu.Unlock()
		res.Stat("probes_completed", 2)
	}
	res.Stat("abandonments", 1)
	res.Stat("other_rpcs", int64(c.Others))
	mctx.Cancel()
	finish(tier, b, h, res)
	return res
}

func init() {
	core.Register(&core.Prop{
		ID:             "C11",
		Level:          "exploration",
		Rule:           "cases = {handler returns after k of n client messages, all 0<=k<n<=8 (server-stream n<=3)} + {caller cancels with m in 0..8 responses unread} x stream kind x other RPCs in flight {quick 0,2; thorough 0..4} x hook plan {none, rendezvous parking the server's stream unregistration until nothing else moves; thorough adds jitter and parking the client stream's teardown}; plus scripted-server families (the caller is cancelled - or its deadline passes - while its send is blocked by transport back-pressure and m in 3..6 responses are unread; the first response cannot be decoded, the caller stops receiving without cancelling, and m-1 more responses follow; a send of the caller cannot be encoded, it walks away, and m responses follow); a family in which the transport reports the write of a stream's opening envelope as failed although it was delivered, so that the handler sends 2..5 messages to an id the caller has given up; a family with real timers in which the handler stops consuming and waits for its context while the caller (50 ms deadline, with and without request metadata) keeps sending, judged one second after the deadline; and a family over the shipped websocket transport on loopback sockets in which a caller gives up (cancel / deadline / stream send) while its 64 KiB frame is half-way onto the socket, with 2 calls in flight (wall-clock bounds there are inconclusive, only failed calls are violations); every case ends with a no-deadline probe and a manual-deadline probe. All cases are distinct parameter tuples and all are non-trivial (each abandons a stream).",
		Plan:           func(tier string, seed int64) int { return len(c11List(tier)) },
		ThoroughRounds: 4,
		Run:            c11Run,
		Assumptions:    []string{"final state = every goroutine durably blocked in a consistent stop-the-world snapshot (channel-only scenario, manual deadlines, no real timers)"},
		RequiredStats: func(string) []string {
			return []string{"probes_completed", "rendezvous_fired", "hook:srv.beforeStream", "scripted_abandonments", "ws_cancel_mid_write_cases", "opens_failed_but_delivered", "live_handler_deadline_cases"}
		},
		Exhaustive: func(string) bool { return false },
	})
}

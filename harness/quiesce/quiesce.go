// Package quiesce decides when a channel-only scenario has reached a state in
// which no goroutine can make another step ("final state"), using consistent
// stop-the-world goroutine snapshots.
package quiesce

import (
	"bytes"
	"regexp"
	"runtime"
	"strings"
	"time"
)

type G struct {
	ID     string
	State  string
	Frames []string // function names, innermost first
	Text   string
}

func (g *G) Has(sub string) bool {
	for _, f := range g.Frames {
		if strings.Contains(f, sub) {
			return true
		}
	}
	return false
}

// HasGoat reports whether the goroutine runs code of the library under test
// (frames of generated protobuf packages do not count).
func (g *G) HasGoat() bool {
	for _, f := range g.Frames {
		if strings.HasPrefix(f, "github.com/avos-io/goat") && !strings.HasPrefix(f, "github.com/avos-io/goat/gen/") {
			return true
		}
	}
	return false
}

type Snapshot struct {
	Gs []*G
}

var hdrRe = regexp.MustCompile(`^goroutine (\d+) \[([^\]]*)\]:$`)

var buf = make([]byte, 1<<20)

// Take returns a consistent snapshot of all goroutines except the caller.
func Take() *Snapshot {
	var n int
	for {
		n = runtime.Stack(buf, true)
		if n < len(buf) {
			break
		}
		buf = make([]byte, 2*len(buf))
	}
	return Parse(buf[:n], true)
}

func Parse(b []byte, skipFirst bool) *Snapshot {
	s := &Snapshot{}
	blocks := bytes.Split(b, []byte("\n\n"))
	for i, blk := range blocks {
		lines := strings.Split(strings.TrimSpace(string(blk)), "\n")
		if len(lines) == 0 {
			continue
		}
		m := hdrRe.FindStringSubmatch(lines[0])
		if m == nil {
			continue
		}
		if skipFirst && i == 0 {
			continue // the caller: runtime.Stack lists the current goroutine first
		}
		g := &G{ID: m[1], State: m[2], Text: string(blk)}
		if k := strings.Index(g.State, ","); k >= 0 {
			g.State = g.State[:k]
		}
		for _, l := range lines[1:] {
			if strings.HasPrefix(l, "\t") || strings.HasPrefix(l, "created by ") {
				continue
			}
			if k := strings.LastIndex(l, "("); k > 0 {
				l = l[:k]
			}
			g.Frames = append(g.Frames, l)
		}
		s.Gs = append(s.Gs, g)
	}
	return s
}

var blocked = map[string]bool{
	"chan receive":            true,
	"chan send":               true,
	"select":                  true,
	"sync.Mutex.Lock":         true,
	"sync.RWMutex.Lock":       true,
	"sync.RWMutex.RLock":      true,
	"sync.Cond.Wait":          true,
	"semacquire":              true,
	"sync.WaitGroup.Wait":     true,
	"chan receive (nil chan)": true,
	"chan send (nil chan)":    true,
	"select (no cases)":       true,
}

// TimerFrames lists frame substrings of goroutines that are blocked on
// something that a pending real timer will end; a snapshot containing one is
// not final.
var TimerFrames = []string{
	"internal/client.NewStream.func1", // client teardown: RST write with a 30 s deadline
}

// Final reports whether every goroutine is durably blocked.  why names the
// first goroutine that is not.
func (s *Snapshot) Final() (ok bool, why string) {
	for _, g := range s.Gs {
		if g.Has("core.caseWatchdog") {
			continue // the child's own per-case watchdog sleeps by design
		}
		durable := blocked[g.State]
		if durable && g.State == "semacquire" {
			// "semacquire" is also the state of a goroutine queueing on a
			// runtime-internal semaphore (GC start, stop-the-world - including
			// the one this very snapshot holds).  Only waits entered through
			// package sync (WaitGroup) are durable.
			if len(g.Frames) == 0 || !strings.HasPrefix(g.Frames[0], "sync.") {
				durable = false
			}
		}
		if !durable {
			top := ""
			if len(g.Frames) > 0 {
				top = g.Frames[0]
			}
			return false, "goroutine " + g.ID + " [" + g.State + "] " + top
		}
	}
	return true, ""
}

// FinalIO is Final for scenarios with sockets whose both ends live in this process: a goroutine
// waiting for socket input ("IO wait") counts as blocked; the caller must establish separately
// that no byte is in flight.
func (s *Snapshot) FinalIO() (ok bool, why string) {
	for _, g := range s.Gs {
		if g.State == "IO wait" {
			g.State = "select" // for the purposes of Final
			defer func(g *G) { g.State = "IO wait" }(g)
		}
	}
	return s.Final()
}

func (s *Snapshot) TimerBlocked() *G {
	for _, g := range s.Gs {
		for _, t := range TimerFrames {
			if g.Has(t) && g.State == "select" {
				return g
			}
		}
	}
	return nil
}

// Goat returns the goroutines with library frames.
func (s *Snapshot) Goat() []*G {
	var out []*G
	for _, g := range s.Gs {
		if g.HasGoat() {
			out = append(out, g)
		}
	}
	return out
}

func (s *Snapshot) Dump() string {
	var sb strings.Builder
	for _, g := range s.Gs {
		sb.WriteString(g.Text)
		sb.WriteString("\n\n")
	}
	return sb.String()
}

// Stats counts snapshots taken, for evidence.
var Snapshots, Waits int64

// Wait polls until a final state is reached or the watchdog expires.  cond, if
// non-nil, is evaluated first on every round and ends the wait early when true
// (a cheap fast path for "the expected event already happened").
func Wait(watchdog time.Duration, cond func() bool) (snap *Snapshot, final bool, condMet bool) {
	Waits++
	deadline := time.Now().Add(watchdog)
	delay := 50 * time.Microsecond
	// Let freshly readied goroutines run before the first snapshot.
	for i := 0; i < 3; i++ {
		runtime.Gosched()
	}
	for {
		if cond != nil && cond() {
			return nil, false, true
		}
		snap = Take()
		Snapshots++
		if ok, _ := snap.Final(); ok && snap.TimerBlocked() == nil {
			// A second look at cond: it may have become true just before the
			// world stopped.
			if cond != nil && cond() {
				return snap, true, true
			}
			return snap, true, false
		}
		if time.Now().After(deadline) {
			return snap, false, false
		}
		time.Sleep(delay)
		if delay < 20*time.Millisecond {
			delay *= 2
		}
	}
}

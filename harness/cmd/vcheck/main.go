// vcheck: parent driver and child worker of the GOAT runtime-monitoring checks.
package main

import (
	"encoding/json"
	"flag"
	"fmt"
	"os"
	"path/filepath"

	"goatverif/core"
	_ "goatverif/props"
)

func main() {
	if len(os.Args) < 2 {
		fmt.Fprintln(os.Stderr, "usage: vcheck run|child|replay|list ...")
		os.Exit(3)
	}
	switch os.Args[1] {
	case "list":
		for _, id := range core.IDs() {
			fmt.Println(id)
		}
	case "child":
		fs := flag.NewFlagSet("child", flag.ExitOnError)
		prop := fs.String("prop", "", "")
		tier := fs.String("tier", "quick", "")
		seed := fs.Int64("seed", 1, "")
		start := fs.Int("start", 0, "")
		stride := fs.Int("stride", 1, "")
		n := fs.Int("n", 0, "")
		out := fs.String("out", "", "")
		fs.Parse(os.Args[2:])
		os.Exit(core.ChildMain(*prop, *tier, *seed, *start, *stride, *n, *out))
	case "run":
		fs := flag.NewFlagSet("run", flag.ExitOnError)
		prop := fs.String("prop", "", "")
		tier := fs.String("tier", "quick", "")
		seed := fs.Int64("seed", 1, "")
		dir := fs.String("verif", "/verif", "")
		only := fs.Int("case", -1, "")
		rep := fs.Int("repeat", 1, "")
		fs.Parse(os.Args[2:])
		p := core.Get(*prop)
		if p == nil {
			fmt.Fprintln(os.Stderr, "unknown property", *prop)
			os.Exit(3)
		}
		os.Exit(core.RunParent(p, core.Options{VerifDir: *dir, Bin: filepath.Join(*dir, "bin", "vcheck"),
			RaceBin: filepath.Join(*dir, "bin", "vcheck.race"), Tier: *tier, Seed: *seed, Only: *only, Repeat: *rep}))
	case "replay":
		fs := flag.NewFlagSet("replay", flag.ExitOnError)
		dir := fs.String("verif", "/verif", "")
		rep := fs.Int("repeat", 20, "")
		fs.Parse(os.Args[2:])
		if fs.NArg() < 1 {
			fmt.Fprintln(os.Stderr, "usage: vcheck replay <witness.json>")
			os.Exit(3)
		}
		b, err := os.ReadFile(fs.Arg(0))
		if err != nil {
			fmt.Fprintln(os.Stderr, err)
			os.Exit(3)
		}
		var w struct {
			Property string `json:"property"`
			Tier     string `json:"tier"`
			Seed     int64  `json:"seed"`
			Case     int    `json:"case"`
		}
		if err := json.Unmarshal(b, &w); err != nil {
			fmt.Fprintln(os.Stderr, err)
			os.Exit(3)
		}
		p := core.Get(w.Property)
		if p == nil {
			fmt.Fprintln(os.Stderr, "unknown property", w.Property)
			os.Exit(3)
		}
		if w.Case < 0 {
			fmt.Println("witness is a race report; re-run the check to reproduce")
			os.Exit(0)
		}
		os.Exit(core.RunParent(p, core.Options{VerifDir: *dir, Bin: filepath.Join(*dir, "bin", "vcheck"),
			RaceBin: filepath.Join(*dir, "bin", "vcheck.race"), Tier: w.Tier, Seed: w.Seed, Only: w.Case, Repeat: *rep}))
	default:
		fmt.Fprintln(os.Stderr, "unknown subcommand", os.Args[1])
		os.Exit(3)
	}
}

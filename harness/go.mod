module goatverif

go 1.22

require (
	github.com/avos-io/goat v0.0.0
	github.com/coder/websocket v1.8.12
	github.com/jonboulle/clockwork v0.4.0
	github.com/rs/zerolog v1.33.0
	google.golang.org/genproto/googleapis/rpc v0.0.0-20240827150818-7e3bb234dfed
	google.golang.org/grpc v1.66.0
	google.golang.org/protobuf v1.34.2
)

require (
	github.com/mattn/go-colorable v0.1.13 // indirect
	github.com/mattn/go-isatty v0.0.20 // indirect
	github.com/pkg/errors v0.9.1 // indirect
	golang.org/x/net v0.28.0 // indirect
	golang.org/x/sync v0.8.0 // indirect
	golang.org/x/sys v0.24.0 // indirect
	golang.org/x/text v0.17.0 // indirect
)

replace github.com/avos-io/goat => /repo

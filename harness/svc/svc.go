// Package svc holds the hand-written test service (arbitrary-bytes payloads),
// handler programs looked up by call tag, client-side stubs that behave like
// protoc-generated code, and the manual-deadline context.
package svc

import (
	"context"
	"errors"
	"io"
	"sync"
	"time"

	"google.golang.org/grpc"
	"google.golang.org/grpc/metadata"
	"google.golang.org/protobuf/types/known/wrapperspb"
)

type BV = wrapperspb.BytesValue

const (
	ServiceName = "verif.Svc"
	MUnary      = "/verif.Svc/Unary"
	MUnary2     = "/verif.Svc/Unary2" // a second unary method: same programs, reply prefixed with "U2:"
	MClient     = "/verif.Svc/ClientStream"
	MServer     = "/verif.Svc/ServerStream"
	MBidi       = "/verif.Svc/Bidi"
	TagKey      = "vtag"
)

var (
	DescClient = &grpc.StreamDesc{StreamName: "ClientStream", ClientStreams: true}
	DescServer = &grpc.StreamDesc{StreamName: "ServerStream", ServerStreams: true}
	DescBidi   = &grpc.StreamDesc{StreamName: "Bidi", ClientStreams: true, ServerStreams: true}
)

func KindDesc(kind string) (*grpc.StreamDesc, string) {
	switch kind {
	case "client":
		return DescClient, MClient
	case "server":
		return DescServer, MServer
	default:
		return DescBidi, MBidi
	}
}

// SvcServer is the HandlerType of the service.
type SvcServer interface {
	Unary(ctx context.Context, req *BV) (*BV, error)
	Stream(kind string, ss grpc.ServerStream) error
}

type UnaryProg func(ctx context.Context, tag string, req []byte) ([]byte, error)
type StreamProg func(tag string, kind string, ss grpc.ServerStream) error

// Impl dispatches to a program chosen by the call's tag.
type Impl struct {
	mu            sync.Mutex
	unary         map[string]UnaryProg
	stream        map[string]StreamProg
	DefU          UnaryProg
	DefS          StreamProg
	invoked       map[string]int
	Returned      map[string]uint64
	UnaryReturned map[string]uint64
	// NilReply makes Unary return a nil reply for programs that return nil bytes and nil error? no: see UnaryRaw
}

func NewImpl() *Impl {
	return &Impl{unary: map[string]UnaryProg{}, stream: map[string]StreamProg{}, invoked: map[string]int{}}
}

func (s *Impl) SetUnary(tag string, p UnaryProg)   { s.mu.Lock(); s.unary[tag] = p; s.mu.Unlock() }
func (s *Impl) SetStream(tag string, p StreamProg) { s.mu.Lock(); s.stream[tag] = p; s.mu.Unlock() }

// Invoked returns how often a handler ran per tag.
func (s *Impl) Invoked() map[string]int {
	s.mu.Lock()
	defer s.mu.Unlock()
	out := map[string]int{}
	for k, v := range s.invoked {
		out[k] = v
	}
	return out
}

func TagOf(ctx context.Context) string {
	md, _ := metadata.FromIncomingContext(ctx)
	if v := md.Get(TagKey); len(v) > 0 {
		return v[0]
	}
	return ""
}

func (s *Impl) Unary(ctx context.Context, req *BV) (*BV, error) {
	tag := TagOf(ctx)
	s.mu.Lock()
	s.invoked["u:"+tag]++
	p := s.unary[tag]
	if p == nil {
		p = s.DefU
	}
	s.mu.Unlock()
	if p == nil {
		return &BV{Value: req.GetValue()}, nil
	}
	out, err := p(ctx, tag, req.GetValue())
	s.mu.Lock()
	if s.UnaryReturned == nil {
		s.UnaryReturned = map[string]uint64{}
	}
	s.UnaryReturned[tag] = Tick()
	s.mu.Unlock()
	if err != nil {
		if out != nil {
			return &BV{Value: out}, err
		}
		return nil, err
	}
	return &BV{Value: out}, nil
}

func (s *Impl) Stream(kind string, ss grpc.ServerStream) error {
	tag := TagOf(ss.Context())
	s.mu.Lock()
	s.invoked["s:"+tag]++
	p := s.stream[tag]
	if p == nil {
		p = s.DefS
	}
	s.mu.Unlock()
	defer func() {
		s.mu.Lock()
		if s.Returned == nil {
			s.Returned = map[string]uint64{}
		}
		s.Returned[tag] = Tick()
		s.mu.Unlock()
	}()
	if p == nil {
		return EchoProg(tag, kind, ss)
	}
	return p(tag, kind, ss)
}

// Tick is set by the harness to the global logical clock.
var Tick = func() uint64 { return 0 }

// UnaryReturnedAt reports the logical time at which the unary handler for tag returned.
func (s *Impl) UnaryReturnedAt() map[string]uint64 {
	s.mu.Lock()
	defer s.mu.Unlock()
	out := map[string]uint64{}
	for k, v := range s.UnaryReturned {
		out[k] = v
	}
	return out
}

// ReturnedAt reports the logical time at which the stream handler for tag returned (0 = not yet).
func (s *Impl) ReturnedAt() map[string]uint64 {
	s.mu.Lock()
	defer s.mu.Unlock()
	out := map[string]uint64{}
	for k, v := range s.Returned {
		out[k] = v
	}
	return out
}

// EchoProg echoes every message until EOF.
func EchoProg(tag, kind string, ss grpc.ServerStream) error {
	for {
		var m BV
		if err := ss.RecvMsg(&m); err != nil {
			if err == io.EOF {
				return nil
			}
			return err
		}
		if err := ss.SendMsg(&BV{Value: m.Value}); err != nil {
			return err
		}
	}
}

func unaryHandler(srv interface{}, ctx context.Context, dec func(interface{}) error, interceptor grpc.UnaryServerInterceptor) (interface{}, error) {
	in := new(BV)
	if err := dec(in); err != nil {
		return nil, err
	}
	if interceptor == nil {
		return srv.(SvcServer).Unary(ctx, in)
	}
	info := &grpc.UnaryServerInfo{Server: srv, FullMethod: MUnary}
	handler := func(ctx context.Context, req interface{}) (interface{}, error) {
		return srv.(SvcServer).Unary(ctx, req.(*BV))
	}
	return interceptor(ctx, in, info, handler)
}

// unary2Handler serves the service's second unary method: the same tag-dispatched programs, with
// the reply marked so that a caller can tell which method's handler answered.
func unary2Handler(srv interface{}, ctx context.Context, dec func(interface{}) error, interceptor grpc.UnaryServerInterceptor) (interface{}, error) {
	in := new(BV)
	if err := dec(in); err != nil {
		return nil, err
	}
	run := func(ctx context.Context, req interface{}) (interface{}, error) {
		out, err := srv.(SvcServer).Unary(ctx, req.(*BV))
		if err != nil || out == nil {
			return out, err
		}
		return &BV{Value: append([]byte("U2:"), out.Value...)}, nil
	}
	if interceptor == nil {
		return run(ctx, in)
	}
	return interceptor(ctx, in, &grpc.UnaryServerInfo{Server: srv, FullMethod: MUnary2}, run)
}

func streamHandler(kind string) grpc.StreamHandler {
	return func(srv interface{}, ss grpc.ServerStream) error {
		return srv.(SvcServer).Stream(kind, ss)
	}
}

var Desc = grpc.ServiceDesc{
	ServiceName: ServiceName,
	HandlerType: (*SvcServer)(nil),
	Methods:     []grpc.MethodDesc{{MethodName: "Unary", Handler: unaryHandler}, {MethodName: "Unary2", Handler: unary2Handler}},
	Streams: []grpc.StreamDesc{
		{StreamName: "ClientStream", Handler: streamHandler("client"), ClientStreams: true},
		{StreamName: "ServerStream", Handler: streamHandler("server"), ServerStreams: true},
		{StreamName: "Bidi", Handler: streamHandler("bidi"), ClientStreams: true, ServerStreams: true},
	},
	Metadata: "verif",
}

// ------------------------------------------------------------ client stubs

func WithTag(ctx context.Context, tag string) context.Context {
	return metadata.AppendToOutgoingContext(ctx, TagKey, tag)
}

// Invoke performs a unary call the way generated code does.
func Invoke(ctx context.Context, cc grpc.ClientConnInterface, tag string, req []byte) ([]byte, error) {
	out := reused()
	err := cc.Invoke(WithTag(ctx, tag), MUnary, &BV{Value: req}, out)
	if err != nil {
		return nil, err
	}
	return out.Value, nil
}

// reused returns a message that already holds data, as a caller that reuses one reply or receive
// object across calls has: decoding a reply into it must replace that content, also when the reply's
// encoding is empty.
func reused() *BV { return &BV{Value: []byte("stale content of a reused message")} }

// Invoke2 calls the service's second unary method; its reply carries the prefix "U2:".
func Invoke2(ctx context.Context, cc grpc.ClientConnInterface, tag string, req []byte) ([]byte, error) {
	out := reused()
	err := cc.Invoke(WithTag(ctx, tag), MUnary2, &BV{Value: req}, out)
	if err != nil {
		return nil, err
	}
	return out.Value, nil
}

// Stream wraps a grpc.ClientStream with the generic-stub operations.
type Stream struct {
	grpc.ClientStream
	Kind  string
	recvN int
}

// ErrRecvNeverEnds is returned by Recv after 50000 successful receives on one stream: no
// workload sends that many, so the stream keeps "succeeding" without ever ending.
var ErrRecvNeverEnds = errors.New("verif: stream still returning messages after 50000 receives")

// Open opens a stream. For server-streaming it performs, like generated code,
// Send(req) and CloseSend, returning the first error.
func Open(ctx context.Context, cc grpc.ClientConnInterface, kind, tag string, serverReq []byte) (*Stream, error) {
	desc, method := KindDesc(kind)
	cs, err := cc.NewStream(WithTag(ctx, tag), desc, method)
	if err != nil {
		return nil, err
	}
	s := &Stream{ClientStream: cs, Kind: kind}
	if kind == "server" {
		if err := cs.SendMsg(&BV{Value: serverReq}); err != nil {
			return s, err
		}
		if err := cs.CloseSend(); err != nil {
			return s, err
		}
	}
	return s, nil
}

func (s *Stream) Send(b []byte) error { return s.SendMsg(&BV{Value: b}) }

func (s *Stream) Recv() ([]byte, error) {
	s.recvN++
	if s.recvN > 50000 {
		return nil, ErrRecvNeverEnds
	}
	m := reused()
	if err := s.RecvMsg(m); err != nil {
		return nil, err
	}
	if m.Value == nil {
		return []byte{}, nil
	}
	return m.Value, nil
}

// CloseAndRecv mirrors GenericClientStream.CloseAndRecv (client-streaming).
func (s *Stream) CloseAndRecv() ([]byte, error) {
	if err := s.CloseSend(); err != nil {
		return nil, err
	}
	m := reused()
	if err := s.RecvMsg(m); err != nil {
		return nil, err
	}
	if m.Value == nil {
		return []byte{}, nil
	}
	return m.Value, nil
}

// ------------------------------------------------------------ manual deadline

// ManualCtx is a context whose deadline lies far in the future but which the
// harness can make expire at a chosen logical point.
type ManualCtx struct {
	context.Context
	mu   sync.Mutex
	done chan struct{}
	err  error
	dl   time.Time
	af   map[int]func()
	afN  int
}

// AfterFunc lets the context package propagate cancellation without a
// goroutine per derived context.
func (m *ManualCtx) AfterFunc(f func()) (stop func() bool) {
	m.mu.Lock()
	defer m.mu.Unlock()
	if m.err != nil {
		go f()
		return func() bool { return false }
	}
	if m.af == nil {
		m.af = map[int]func(){}
	}
	m.afN++
	k := m.afN
	m.af[k] = f
	return func() bool {
		m.mu.Lock()
		defer m.mu.Unlock()
		_, ok := m.af[k]
		delete(m.af, k)
		return ok
	}
}

func (m *ManualCtx) end(err error) {
	m.mu.Lock()
	if m.err != nil {
		m.mu.Unlock()
		return
	}
	m.err = err
	close(m.done)
	fs := m.af
	m.af = nil
	m.mu.Unlock()
	for _, f := range fs {
		go f()
	}
}

func NewManualCtx(parent context.Context) *ManualCtx {
	return &ManualCtx{Context: parent, done: make(chan struct{}), dl: time.Now().Add(3000 * time.Hour)}
}

func (m *ManualCtx) Deadline() (time.Time, bool) { return m.dl, true }
func (m *ManualCtx) Done() <-chan struct{}       { return m.done }
func (m *ManualCtx) Err() error {
	m.mu.Lock()
	defer m.mu.Unlock()
	return m.err
}

// Fire makes the deadline expire now.
func (m *ManualCtx) Fire() { m.end(context.DeadlineExceeded) }

// Cancel ends the context with Canceled.
func (m *ManualCtx) Cancel() { m.end(context.Canceled) }

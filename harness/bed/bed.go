// Package bed builds the topologies the checks run on and owns the hook plan.
package bed

import (
	"context"
	"fmt"
	"hash/fnv"
	"runtime"
	"sync"
	"sync/atomic"
	"time"

	goat "github.com/avos-io/goat"
	"github.com/rs/zerolog"

	"goatverif/core"
	"goatverif/quiesce"
	"goatverif/svc"
	"goatverif/wire"
)

func init() {
	zerolog.SetGlobalLevel(zerolog.Disabled)
	svc.Tick = wire.Tick
}

// Recent lists the beds created since the last ResetRecent (used by the wire-protocol monitor,
// which looks at the taps of whatever workload just ran).
var Recent []*Bed

func ResetRecent() { Recent = nil }

// ------------------------------------------------------------------ hooks

type Hooks struct {
	mu     sync.Mutex
	hits   map[string]int64
	act    map[string]func(id uint64)
	Jitter uint64 // 0 = none; otherwise seed of the yield/sleep plan
	n      atomic.Uint64
}

func NewHooks() *Hooks {
	return &Hooks{hits: map[string]int64{}, act: map[string]func(uint64){}}
}

func (h *Hooks) On(point string, f func(id uint64)) {
	h.mu.Lock()
	h.act[point] = f
	h.mu.Unlock()
}

func (h *Hooks) Install() { goat.VerifSetHook(h.at) }
func Uninstall()          { goat.VerifSetHook(nil) }

func (h *Hooks) at(point string, id uint64) {
	h.mu.Lock()
	h.hits[point]++
	f := h.act[point]
	h.mu.Unlock()
	if f != nil {
		f(id)
		return
	}
	if h.Jitter != 0 {
		k := h.n.Add(1)
		hh := fnv.New64a()
		fmt.Fprintf(hh, "%d/%s/%d", h.Jitter, point, k)
		v := hh.Sum64()
		switch v % 8 {
		case 0, 1:
			runtime.Gosched()
		case 2:
			for i := uint64(0); i < 1+(v>>8)%4; i++ {
				runtime.Gosched()
			}
		case 3:
			if (v>>16)%4 == 0 {
				time.Sleep(time.Duration(20+(v>>24)%180) * time.Microsecond)
			}
		}
	}
}

func (h *Hooks) Hits() map[string]int64 {
	h.mu.Lock()
	defer h.mu.Unlock()
	out := map[string]int64{}
	for k, v := range h.hits {
		out[k] = v
	}
	return out
}

func (h *Hooks) Fold(r *core.Result) {
	for k, v := range h.Hits() {
		r.Stat("hook:"+k, v)
	}
}

// ------------------------------------------------------------------ bed

type Opts struct {
	Topology  string // direct | proxy | chain | fanin
	Clients   int
	Cap       int
	Serialise bool
	SrvOpts   []goat.ServerOption
	DialOpts  []goat.DialOption
	SrvName   string
	ServeCtx  context.Context
}

type Bed struct {
	O      Opts
	Impl   *svc.Impl
	Srv    *goat.Server
	Links  []*wire.Link // client-side links (index = client)
	XLinks []*wire.Link // proxy-to-proxy links of the chain topology
	SLink  *wire.Link   // shared server-side link (proxy / fanin)
	Conns  []*goat.ClientConn
	Proxy  *goat.Proxy
	Demux  *goat.Demux
	Ctx    context.Context
	Cancel context.CancelFunc

	CloseSeq  uint64 // logical time of Close (0 = still open)
	mu        sync.Mutex
	serveErrs []error
	serves    int
	serveDone int
}

func ClientName(i int) string { return fmt.Sprintf("c%d", i) }

func New(o Opts) *Bed {
	if o.Clients == 0 {
		o.Clients = 1
	}
	if o.SrvName == "" {
		o.SrvName = "srv"
	}
	if o.Topology == "" {
		o.Topology = "direct"
	}
	goat.VerifResetTracking()
	b := &Bed{O: o, Impl: svc.NewImpl()}
	if len(Recent) >= 16 {
		// only the check that inspects them (C06, which resets the list after every case) needs the
		// beds of the current case; without a bound every bed of a child process - links, tap logs
		// with all their payloads - stays reachable for the child's whole life
		Recent = append([]*Bed(nil), Recent[len(Recent)-15:]...)
	}
	Recent = append(Recent, b)
	b.Ctx, b.Cancel = context.WithCancel(context.Background())
	b.Srv = goat.NewServer(o.SrvName, o.SrvOpts...)
	b.Srv.RegisterService(&svc.Desc, b.Impl)
	serveCtx := o.ServeCtx
	if serveCtx == nil {
		serveCtx = b.Ctx
	}
	serve := func(rw goat.RpcReadWriter) {
		b.mu.Lock()
		b.serves++
		b.mu.Unlock()
		err := b.Srv.Serve(serveCtx, rw)
		b.mu.Lock()
		b.serveDone++
		b.serveErrs = append(b.serveErrs, err)
		b.mu.Unlock()
	}
	switch o.Topology {
	case "direct":
		for i := 0; i < o.Clients; i++ {
			l := wire.NewLink(o.Cap, o.Serialise)
			b.Links = append(b.Links, l)
			go serve(l.B)
			b.Conns = append(b.Conns, goat.NewClientConn(l.A, ClientName(i), o.SrvName, o.DialOpts...))
		}
	case "proxy":
		b.SLink = wire.NewLink(o.Cap, o.Serialise)
		b.Demux = goat.NewDemux(b.Ctx, b.SLink.B,
			func(r *goat.Rpc) string { return r.GetHeader().GetSource() },
			func(rw goat.RpcReadWriter) { serve(rw) })
		go b.Demux.Run()
		b.Proxy = goat.NewProxy(b.Ctx, "px",
			func(id string) (goat.RpcReadWriter, error) {
				if id == o.SrvName {
					return b.SLink.A, nil
				}
				return nil, fmt.Errorf("unknown peer %q", id)
			}, nil, nil)
		for i := 0; i < o.Clients; i++ {
			l := wire.NewLink(o.Cap, o.Serialise)
			b.Links = append(b.Links, l)
			b.Proxy.AddClient(ClientName(i), l.B)
			b.Conns = append(b.Conns, goat.NewClientConn(l.A, ClientName(i), o.SrvName, o.DialOpts...))
		}
		go b.Proxy.Serve()
	case "chain":
		// client - px1 - px2 - px3 - Demux keyed by source - Serve. A request travels on links each
		// proxy opens towards the server (attached at the next proxy under the client's name); the
		// reply follows the recorded route back: a proxy reaches the previous one by writing on the
		// link the request came in on, and the previous proxy reads it on its outgoing connection.
		const hops = 3
		b.SLink = wire.NewLink(o.Cap, o.Serialise)
		b.Demux = goat.NewDemux(b.Ctx, b.SLink.B,
			func(r *goat.Rpc) string { return r.GetHeader().GetSource() },
			func(rw goat.RpcReadWriter) { serve(rw) })
		go b.Demux.Run()
		l0 := wire.NewLink(o.Cap, o.Serialise)
		b.Links = append(b.Links, l0)
		in := []*wire.Link{l0} // in[i]: the link on which proxy i+1 receives the client's traffic
		for i := 1; i < hops; i++ {
			x := wire.NewLink(o.Cap, o.Serialise)
			b.XLinks = append(b.XLinks, x)
			in = append(in, x)
		}
		pxName := func(i int) string { return fmt.Sprintf("px%d", i) }
		for i := 1; i <= hops; i++ {
			i := i
			px := goat.NewProxy(b.Ctx, pxName(i),
				func(id string) (goat.RpcReadWriter, error) {
					switch {
					case id == o.SrvName && i == hops:
						return b.SLink.A, nil
					case id == o.SrvName:
						return in[i].A, nil
					case i > 1 && id == pxName(i-1):
						return writeOnly{in[i-1].B}, nil
					}
					return nil, fmt.Errorf("%s: unknown peer %q", pxName(i), id)
				}, nil, nil)
			px.AddClient(ClientName(0), in[i-1].B)
			go px.Serve()
			if i == 1 {
				b.Proxy = px
			}
		}
		b.Conns = append(b.Conns, goat.NewClientConn(l0.A, ClientName(0), o.SrvName, o.DialOpts...))
	case "fanin":
		b.SLink = wire.NewLink(o.Cap, o.Serialise)
		b.Demux = goat.NewDemux(b.Ctx, b.SLink.B,
			func(r *goat.Rpc) string { return r.GetHeader().GetSource() },
			func(rw goat.RpcReadWriter) { serve(rw) })
		go b.Demux.Run()
		fi := NewFanIn(b.Ctx, b.SLink.A, o.Clients)
		for i := 0; i < o.Clients; i++ {
			b.Conns = append(b.Conns, goat.NewClientConn(fi.Client(i), ClientName(i), o.SrvName, o.DialOpts...))
		}
	default:
		panic("unknown topology " + o.Topology)
	}
	return b
}

func (b *Bed) ServeState() (started, done int, errs []error) {
	b.mu.Lock()
	defer b.mu.Unlock()
	return b.serves, b.serveDone, append([]error(nil), b.serveErrs...)
}

// Close tears everything down: fails all links and cancels every context.
func (b *Bed) Close() {
	b.mu.Lock()
	if b.CloseSeq == 0 {
		b.CloseSeq = wire.Tick()
	}
	b.mu.Unlock()
	b.Cancel()
	b.Srv.Stop()
	for _, l := range b.Links {
		l.Kill()
	}
	for _, l := range b.XLinks {
		l.Kill()
	}
	if b.SLink != nil {
		b.SLink.Kill()
	}
	if b.Demux != nil {
		b.Demux.Stop()
	}
}

// Hygiene waits, after Close, for a final state and reports the goroutines
// with goat frames that are still alive (a clean tree leaves none).
func Hygiene(watchdog time.Duration) (left []*quiesce.G, final bool) {
	snap, final, _ := quiesce.Wait(watchdog, nil)
	if snap == nil {
		return nil, final
	}
	return snap.Goat(), final
}

// writeOnly is the sending half of a link end that another attachment of the
// same proxy already reads from.
type writeOnly struct{ end goat.RpcReadWriter }

func (w writeOnly) Read(ctx context.Context) (*wire.Rpc, error) {
	<-ctx.Done()
	return nil, ctx.Err()
}

func (w writeOnly) Write(ctx context.Context, r *wire.Rpc) error { return w.end.Write(ctx, r) }

// ------------------------------------------------------------------ fan-in

// FanIn lets k client connections share one transport; responses are routed
// back by destination name.
type FanIn struct {
	ctx    context.Context
	shared goat.RpcReadWriter
	in     []chan *wire.Rpc
}

func NewFanIn(ctx context.Context, shared goat.RpcReadWriter, k int) *FanIn {
	f := &FanIn{ctx: ctx, shared: shared}
	idx := map[string]int{}
	for i := 0; i < k; i++ {
		f.in = append(f.in, make(chan *wire.Rpc))
		idx[ClientName(i)] = i
	}
	go func() {
		for {
			r, err := shared.Read(ctx)
			if err != nil {
				return
			}
			i, ok := idx[r.GetHeader().GetDestination()]
			if !ok {
				continue
			}
			select {
			case f.in[i] <- r:
			case <-ctx.Done():
				return
			}
		}
	}()
	return f
}

type fanEnd struct {
	f *FanIn
	i int
}

func (f *FanIn) Client(i int) goat.RpcReadWriter { return &fanEnd{f, i} }

func (e *fanEnd) Read(ctx context.Context) (*wire.Rpc, error) {
	select {
	case r := <-e.f.in[e.i]:
		return r, nil
	case <-ctx.Done():
		return nil, ctx.Err()
	case <-e.f.ctx.Done():
		return nil, e.f.ctx.Err()
	}
}

func (e *fanEnd) Write(ctx context.Context, r *wire.Rpc) error {
	return e.f.shared.Write(ctx, r)
}

// Package wire provides the harness-owned transports: in-memory links with
// taps, deterministic fault injection and scripted peers.
package wire

import (
	"context"
	"errors"
	"sync"
	"sync/atomic"

	"github.com/avos-io/goat/gen/goatorepo"
	"google.golang.org/protobuf/proto"
)

type Rpc = goatorepo.Rpc

// Seq is the single process-wide logical clock shared by every recorder.
var Seq atomic.Uint64

func Tick() uint64 { return Seq.Add(1) }

var (
	ErrRead  = errors.New("verif: injected transport read failure")
	ErrWrite = errors.New("verif: injected transport write failure")
	ErrKill  = errors.New("verif: link torn down")
)

// Dir 0 = A->B (client to server by convention), 1 = B->A.
type Rec struct {
	Seq       uint64
	Dir       int
	Rpc       *Rpc // a clone taken at write time
	Delivered bool
	N         int // global delivered position (1-based), 0 if not delivered
}

type Tap struct {
	mu        sync.Mutex
	log       []*Rec
	delivered int
	// OnDelivered is called synchronously in the writer's goroutine (no
	// link lock held) after the n-th envelope (both directions) was handed over.
	OnDelivered func(n int, r *Rec) // use SetOnDelivered once envelopes may be flowing
}

// SetOnDelivered installs the callback (safe while writers are active).
func (t *Tap) SetOnDelivered(f func(n int, r *Rec)) {
	t.mu.Lock()
	t.OnDelivered = f
	t.mu.Unlock()
}

func (t *Tap) onDelivered() func(n int, r *Rec) {
	t.mu.Lock()
	defer t.mu.Unlock()
	return t.OnDelivered
}

// add logs the envelope as delivered *before* it is handed over (the writer holds the
// direction's semaphore, so log order = delivery order, and a reader that reacts to the
// envelope can never run ahead of the log); undeliver retracts it if the hand-over fails.
func (t *Tap) add(dir int, rpc *Rpc) *Rec {
	r := &Rec{Dir: dir, Rpc: proto.Clone(rpc).(*Rpc)}
	t.mu.Lock()
	r.Seq = Tick()
	t.delivered++
	r.Delivered = true
	r.N = t.delivered
	t.log = append(t.log, r)
	t.mu.Unlock()
	return r
}

func (t *Tap) undeliver(r *Rec) {
	t.mu.Lock()
	r.Delivered = false
	t.mu.Unlock()
}

func (t *Tap) markDelivered(r *Rec) int {
	return r.N
}

// Log returns the delivered envelopes in wire order.
func (t *Tap) Log() []*Rec {
	t.mu.Lock()
	defer t.mu.Unlock()
	out := make([]*Rec, 0, len(t.log))
	for _, r := range t.log {
		if r.Delivered {
			out = append(out, r)
		}
	}
	return out
}

func (t *Tap) Delivered() int {
	t.mu.Lock()
	defer t.mu.Unlock()
	return t.delivered
}

type Link struct {
	ch        [2]chan *Rpc
	sem       [2]chan struct{}
	Tap       *Tap
	Serialise bool
	Eager     bool // writes do not consult ctx unless they have to wait
	A, B      *End
	killed    chan struct{}
	killOnce  sync.Once
}

// NewLink creates a reliable ordered duplex link. capacity 0 = rendezvous.
func NewLink(capacity int, serialise bool) *Link {
	l := &Link{Tap: &Tap{}, Serialise: serialise, killed: make(chan struct{})}
	for i := 0; i < 2; i++ {
		l.ch[i] = make(chan *Rpc, capacity)
		l.sem[i] = make(chan struct{}, 1)
	}
	l.A = newEnd(l, 0)
	l.B = newEnd(l, 1)
	return l
}

// Kill fails every pending and future operation on both ends.
func (l *Link) Kill() { l.killOnce.Do(func() { close(l.killed) }) }

type End struct {
	l    *Link
	side int

	mu            sync.Mutex
	reads         int
	failReadAfter int // -1 = never
	rfail         chan struct{}
	rfailOnce     sync.Once
	failedReads   atomic.Int64 // Read calls answered with the failure
	writes        int
	failWriteAt   int // -1 = never; index (0-based) of the write that fails
	failWriteOnce bool
	wfail         chan struct{}
	wfailOnce     sync.Once
	discard       bool
	readErr       error        // error returned by a failed Read (default ErrRead)
	failWriteSet  map[int]bool // one-shot failing write indices
	discardSet    map[int]bool // one-shot indices of writes that succeed without delivering
	lateFailSet   map[int]bool // one-shot indices of writes that are delivered and then reported failed
	lateFailHold  func()       // if set, runs after such a write was delivered and before its failure is reported
	ctxErrHold    func()       // if set, runs before a write that waited reports the end of its context
	writeErr      error        // error returned by a failed Write (default ErrWrite)
	// OnWriteEntry, if set (use SetOnWriteEntry), is called at the very start of Write, before
	// any serialisation: parking here models a transport in which concurrent Write calls are
	// processed in an order of its own choosing.
	OnWriteEntry func(rpc *Rpc)
	// OnRead, if set, is called (no lock held) before each Read blocks, with
	// the number of envelopes read so far.
	OnRead func(n int)
}

func newEnd(l *Link, side int) *End {
	return &End{l: l, side: side, failReadAfter: -1, failWriteAt: -1,
		rfail: make(chan struct{}), wfail: make(chan struct{})}
}

// FailRead makes the current and every later Read fail.
func (e *End) FailRead() { e.rfailOnce.Do(func() { close(e.rfail) }) }

// FailReadAfter makes Read fail once n envelopes have been read.
func (e *End) FailReadAfter(n int) {
	e.mu.Lock()
	e.failReadAfter = n
	now := e.reads >= n
	e.mu.Unlock()
	if now {
		e.FailRead() // also wakes a Read that is already blocked
	}
}

// FailWrite makes the current and every later Write fail.
func (e *End) FailWrite() { e.wfailOnce.Do(func() { close(e.wfail) }) }

// FailWriteAt makes the write with 0-based index n fail; if once is false all
// later writes fail too.
func (e *End) FailWriteAt(n int, once bool) {
	e.mu.Lock()
	e.failWriteAt = n
	e.failWriteOnce = once
	e.mu.Unlock()
}

// SetReadErr chooses the error a failed Read returns (transports report loss differently:
// io.EOF, a wrapped io.EOF, context.Canceled from their own shutdown, ...).
func (e *End) SetReadErr(err error) {
	e.mu.Lock()
	e.readErr = err
	e.mu.Unlock()
}

func (e *End) rerr() error {
	e.mu.Lock()
	defer e.mu.Unlock()
	if e.readErr != nil {
		return e.readErr
	}
	return ErrRead
}

// FailWritesAt makes the writes with these 0-based indices fail, each once.
func (e *End) FailWritesAt(idx ...int) {
	e.mu.Lock()
	if e.failWriteSet == nil {
		e.failWriteSet = map[int]bool{}
	}
	for _, i := range idx {
		e.failWriteSet[i] = true
	}
	e.mu.Unlock()
}

// DeliverButFailWritesAt makes the writes with these 0-based indices deliver their envelope and
// then report failure, each once: a transport whose Write gives up (context, timeout) while the
// frame still reaches the peer - the shipped websocket and HTTP transports can do that.
func (e *End) DeliverButFailWritesAt(idx ...int) {
	e.mu.Lock()
	if e.lateFailSet == nil {
		e.lateFailSet = map[int]bool{}
	}
	for _, i := range idx {
		e.lateFailSet[i] = true
	}
	e.mu.Unlock()
}

// SetWriteErr chooses the error a failed Write returns.
func (e *End) SetWriteErr(err error) {
	e.mu.Lock()
	e.writeErr = err
	e.mu.Unlock()
}

func (e *End) werr() error {
	e.mu.Lock()
	defer e.mu.Unlock()
	if e.writeErr != nil {
		return e.writeErr
	}
	return ErrWrite
}

func (e *End) SetOnWriteEntry(f func(rpc *Rpc)) {
	e.mu.Lock()
	e.OnWriteEntry = f
	e.mu.Unlock()
}

// Discard makes every later Write succeed without delivering.
func (e *End) Discard() {
	e.mu.Lock()
	e.discard = true
	e.mu.Unlock()
}

// DiscardWritesAt makes the writes with the given indices (one-shot) succeed without delivering:
// an envelope lost on the way although the transport reported nothing.
func (e *End) DiscardWritesAt(idx ...int) {
	e.mu.Lock()
	if e.discardSet == nil {
		e.discardSet = map[int]bool{}
	}
	for _, i := range idx {
		e.discardSet[i] = true
	}
	e.mu.Unlock()
}

// SetOnRead installs the OnRead callback (safe while a reader is active).
func (e *End) SetOnRead(f func(n int)) {
	e.mu.Lock()
	e.OnRead = f
	e.mu.Unlock()
}

// FailedReads counts the Read calls that were answered with the end's failure. A reader that
// gives up at the first failure sees exactly one.
func (e *End) FailedReads() int64 { return e.failedReads.Load() }

func (e *End) ReadFailed() bool {
	select {
	case <-e.rfail:
		return true
	default:
		return false
	}
}

func (e *End) Reads() int {
	e.mu.Lock()
	defer e.mu.Unlock()
	return e.reads
}

func (e *End) Read(ctx context.Context) (*Rpc, error) {
	e.mu.Lock()
	n := e.reads
	if e.failReadAfter >= 0 && e.reads >= e.failReadAfter {
		e.mu.Unlock()
		e.FailRead()
	} else {
		e.mu.Unlock()
	}
	e.mu.Lock()
	onRead := e.OnRead
	e.mu.Unlock()
	if onRead != nil {
		onRead(n)
	}
	select {
	case <-e.rfail:
		e.failedReads.Add(1)
		return nil, e.rerr()
	case <-e.l.killed:
		return nil, ErrKill
	default:
	}
	in := e.l.ch[1-e.side]
	select {
	case <-ctx.Done():
		return nil, ctx.Err()
	case <-e.rfail:
		e.failedReads.Add(1)
		return nil, e.rerr()
	case <-e.l.killed:
		return nil, ErrKill
	case r := <-in:
		e.mu.Lock()
		e.reads++
		e.mu.Unlock()
		return r, nil // the next Read call notices failReadAfter
	}
}

func (e *End) Write(ctx context.Context, rpc *Rpc) error {
	e.mu.Lock()
	onEntry := e.OnWriteEntry
	e.mu.Unlock()
	if onEntry != nil {
		onEntry(rpc)
	}
	dir := e.side
	sem := e.l.sem[dir]
	select {
	case <-e.wfail:
		return e.werr()
	case <-e.l.killed:
		return ErrKill
	default:
	}
	got := false
	if e.l.Eager {
		// a transport that does not look at ctx unless it has to wait (e.g. a buffered writer)
		select {
		case sem <- struct{}{}:
			got = true
		default:
		}
	}
	if !got {
		select {
		case sem <- struct{}{}:
		case <-ctx.Done():
			return ctx.Err()
		case <-e.wfail:
			return e.werr()
		case <-e.l.killed:
			return ErrKill
		}
	}
	e.mu.Lock()
	idx := e.writes
	e.writes++
	fail := e.failWriteAt >= 0 && (idx == e.failWriteAt || (!e.failWriteOnce && idx > e.failWriteAt))
	if e.failWriteSet[idx] {
		fail = true
		delete(e.failWriteSet, idx)
	}
	discard := e.discard
	if e.discardSet[idx] {
		discard = true
		delete(e.discardSet, idx)
	}
	lateFail := e.lateFailSet[idx]
	if lateFail {
		delete(e.lateFailSet, idx)
	}
	e.mu.Unlock()
	if fail {
		<-sem
		return e.werr()
	}
	if discard {
		<-sem
		return nil
	}
	msg := rpc
	if e.l.Serialise {
		b, err := proto.Marshal(rpc)
		if err != nil {
			<-sem
			return err
		}
		msg = &Rpc{}
		if err := proto.Unmarshal(b, msg); err != nil {
			<-sem
			return err
		}
	}
	rec := e.l.Tap.add(dir, rpc)
	var err error
	if e.l.Eager {
		select {
		case e.l.ch[dir] <- msg:
			n := e.l.Tap.markDelivered(rec)
			<-sem
			if cb := e.l.Tap.onDelivered(); cb != nil {
				cb(n, rec)
			}
			if lateFail {
				e.holdLateFail()
				return e.werr()
			}
			return nil
		default:
		}
	}
	select {
	case e.l.ch[dir] <- msg:
	case <-ctx.Done():
		err = ctx.Err()
		e.mu.Lock()
		hold := e.ctxErrHold
		e.mu.Unlock()
		if hold != nil {
			hold()
		}
	case <-e.wfail:
		err = e.werr()
	case <-e.l.killed:
		err = ErrKill
	}
	if err != nil {
		e.l.Tap.undeliver(rec)
		<-sem
		return err
	}
	n := e.l.Tap.markDelivered(rec)
	<-sem
	if cb := e.l.Tap.onDelivered(); cb != nil {
		cb(n, rec)
	}
	if lateFail {
		e.holdLateFail()
		return e.werr()
	}
	return nil
}

// SetCtxErrHold installs a function that runs when a write that was waiting for the peer gives up
// because its context ended, before it returns: the time a transport takes to notice.
func (e *End) SetCtxErrHold(f func()) {
	e.mu.Lock()
	e.ctxErrHold = f
	e.mu.Unlock()
}

// SetLateFailHold installs a function that runs between the delivery of a write that is to be
// reported failed (DeliverButFailWritesAt) and the report: the time a transport takes to notice.
func (e *End) SetLateFailHold(f func()) {
	e.mu.Lock()
	e.lateFailHold = f
	e.mu.Unlock()
}

func (e *End) holdLateFail() {
	e.mu.Lock()
	f := e.lateFailHold
	e.mu.Unlock()
	if f != nil {
		f()
	}
}

// Kind classifies an envelope for logs and automata.
func Kind(r *Rpc) string {
	switch {
	case r.GetReset_() != nil:
		return "RESET"
	case r.GetTrailer() != nil && r.GetBody() != nil:
		return "BODY+TRAILER"
	case r.GetTrailer() != nil:
		return "TRAILER"
	case r.GetBody() != nil:
		return "BODY"
	case r.GetHeader() != nil:
		return "HEADER"
	default:
		return "EMPTY"
	}
}

// Peer is a scripted endpoint: it reads everything arriving on its end (always
// draining, recording each envelope) and lets React answer.
type Peer struct {
	End   *End
	mu    sync.Mutex
	Got   []*Rpc
	React func(p *Peer, in *Rpc) // called in the peer's reader goroutine
	done  chan struct{}
}

func NewPeer(ctx context.Context, e *End, react func(p *Peer, in *Rpc)) *Peer {
	p := &Peer{End: e, React: react, done: make(chan struct{})}
	go func() {
		defer close(p.done)
		for {
			r, err := e.Read(ctx)
			if err != nil {
				return
			}
			p.mu.Lock()
			p.Got = append(p.Got, proto.Clone(r).(*Rpc))
			p.mu.Unlock()
			if p.React != nil {
				p.React(p, r)
			}
		}
	}()
	return p
}

func (p *Peer) Send(ctx context.Context, rs ...*Rpc) error {
	for _, r := range rs {
		if err := p.End.Write(ctx, r); err != nil {
			return err
		}
	}
	return nil
}

func (p *Peer) Received() []*Rpc {
	p.mu.Lock()
	defer p.mu.Unlock()
	return append([]*Rpc(nil), p.Got...)
}

func (p *Peer) Done() <-chan struct{} { return p.done }

func (e *End) Writes() int {
	e.mu.Lock()
	defer e.mu.Unlock()
	return e.writes
}

#!/usr/bin/env python3
"""seededtable.py <suffix>: markdown table rows for the seeded changes /verif/seeded/C??<suffix>-k (DESIGN.md section 9)."""
import json, glob, os, re, sys
suffix = sys.argv[1] if len(sys.argv) > 1 else ""
NEED = json.load(open(os.path.join(os.path.dirname(__file__), "seeded_strengthening.json")))
rows = []
for d in sorted(glob.glob("/verif/seeded/C??%s-?" % suffix)):
    name = os.path.basename(d)
    m = json.load(open(d + "/meta.json"))
    v = m.get("verified_by_me", {})
    chk = v.get("check", "")
    key = ""
    mm = re.search(r"key=(\S+)", chk)
    if mm:
        key = mm.group(1)
    if len(key) > 80:
        key = key[:80]
    summ = " ".join(m["summary"].split())[:170].replace("|", "/")
    shown = "`%s`" % key if v.get("caught_by_quick_check") else "MISSED"
    if not v.get("caught_by_quick_check") and v.get("caught_by_other_check"):
        shown = "not by its own check; by " + v["caught_by_other_check"].split(":")[0]
    if os.path.exists(d + "/OBSOLETE"):
        shown = "obsolete (see OBSOLETE)"
    rows.append("| %s | %s | %s | %s |" % (name, summ, shown, NEED.get(name, "-")))
print("\n".join(rows))

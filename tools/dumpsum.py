#!/usr/bin/env python3
"""Summarise the goroutine dump in a witness file: count goroutines by (state, key frames)."""
import json,sys,collections,re
w=json.load(open(sys.argv[1]))
d=w['detail'].get('dump','')
c=collections.Counter()
for b in d.split('\n\n'):
    lines=b.split('\n')
    if not lines or not lines[0].startswith('goroutine'): continue
    st=re.sub(r'goroutine \d+ ','',lines[0])
    fr=[l.split('(')[0] if not l.startswith('created') else l for l in lines[1:] if not l.startswith('\t')]
    key=[]
    for f in fr:
        f=f.replace('github.com/avos-io/goat','goat').replace('goatverif/','')
        if any(k in f for k in ('goat','props.','wire.','svc.(*Stream)','bed.')) and 'fnReadWriter' not in f:
            key.append(f.split('/')[-1] if 'goat' not in f else f)
    c[(st,' < '.join(key[:5]))]+=1
for (st,k),n in sorted(c.items(), key=lambda x:-x[1]):
    print(n, st, k)

#!/bin/bash
# sweep.sh [tier] [reps]: run every check at seeds 1 2 3 7 1234 (reps times) and report every non-zero exit.
TIER=${1:-quick}; REPS=${2:-1}
cd "$(dirname "$0")/.."
./vcheck.sh build >/dev/null || { echo "build failed"; exit 3; }
bad=0
for rep in $(seq 1 $REPS); do
 for seed in 1 2 3 7 1234; do
  for id in C01 C02 C03 C04 C05 C06 C07 C08 C09 C10 C11 C12 C13 C14 C15 C16 C17 C18 C19 C20; do
    out=$(VERIF_SEED=$seed bin/vcheck run -verif "$(pwd)" -prop $id -tier $TIER -seed $seed 2>&1); rc=$?
    if [ $rc -ne 0 ]; then bad=$((bad+1)); echo "NONZERO rep=$rep seed=$seed $id exit=$rc"; echo "$out" | grep -E "VIOLATION|key=|BROKEN" | head -4 | cut -c1-300; fi
  done
 done
done
echo "sweep done: tier=$TIER reps=$REPS nonzero=$bad"

#!/bin/bash
# validateseeded.sh <name>...: re-validate kept changes /verif/seeded/<name>/ against /repo's HEAD in a scratch
# worktree: the patch applies and builds, the pinned suite passes with it (TestClientResetStream, a known
# flake, is ignored), the demonstration fails with it (3 runs) and passes without it (3 runs).
export GOFLAGS=-mod=mod GOPROXY=off GOSUMDB=off GOTOOLCHAIN=local
for name in "$@"; do
  d=/verif/seeded/$name; prop=${name%%-*}; prop=${prop%[bcdefgh]}
  W=/tmp/wt/val-$name
  git -C /repo worktree remove --force $W 2>/dev/null; rm -rf $W
  git -C /repo worktree add -q --detach $W HEAD || exit 2
  cd $W
  if ! git apply --whitespace=nowarn $d/patch.diff 2>/dev/null; then echo "$name: patch does not apply"; cd /; git -C /repo worktree remove --force $W; continue; fi
  go build ./... 2>&1 | tail -3
  S1=$(go test -vet=off -count=1 ./... 2>&1 | grep -E "^(--- FAIL)" | grep -v TestClientResetStream | head -3)
  SUITE=pass; if [ -n "$S1" ]; then S2=$(go test -vet=off -count=1 ./... 2>&1 | grep -E "^(--- FAIL)" | grep -v TestClientResetStream | head -3); [ -n "$S2" ] && SUITE="FAILS($S2)"; fi
  TN=$(python3 -c "import json;print(json.load(open('$d/meta.json')).get('test_name',''))")
  RACE=""; [ "$prop" = C15 ] && grep -qi race $d/meta.json && RACE="-race"
  cp $d/demo_test.go ./zz_demo_test.go
  DW=0; for i in 1 2 3; do timeout 120 go test $RACE -vet=off -count=1 -run "^${TN}" . >/dev/null 2>&1 || DW=$((DW+1)); done
  git apply -R --whitespace=nowarn $d/patch.diff
  DN=0; for i in 1 2 3; do timeout 120 go test $RACE -vet=off -count=1 -run "^${TN}" . >/dev/null 2>&1 || DN=$((DN+1)); done
  cd /; git -C /repo worktree remove --force $W
  echo "$name: suite_with_mutant=$SUITE demo_fails_with=$DW/3 demo_fails_without=$DN/3 test=$TN"
done

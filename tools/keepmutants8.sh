#!/bin/bash
# keepmutants.sh: re-validate every sub-agent mutant, run the property's quick check against it, and file it under /verif/seeded/.
cd /verif
mkdir -p seeded
: > /tmp/wt/matrix8.txt
for id in C01h C02h C05h C06h C12h C15h C16h C17h C18h C20h; do
 for k in 1 2; do
  [ -f /tmp/wt/out-$id/patch$k.diff ] || continue
  ./tools/evalmutant.sh $id $k > /tmp/wt/eval-$id-$k.txt 2>&1
  V=$(grep "^$id/$k: suite" /tmp/wt/eval-$id-$k.txt); C=$(grep "^$id/$k: check" /tmp/wt/eval-$id-$k.txt)
  echo "$V" >> /tmp/wt/matrix8.txt; echo "$C" >> /tmp/wt/matrix8.txt
  d=seeded/$id-$k; mkdir -p $d
  cp /tmp/wt/out-$id/patch$k.diff $d/patch.diff; cp /tmp/wt/out-$id/demo${k}_test.go $d/demo_test.go
  python3 - "$id" "$k" "$V" "$C" <<'PY'
import json,sys,re
id,k,V,C=sys.argv[1:5]
m=json.load(open('/tmp/wt/out-%s/meta%s.json'%(id,k)))
m['verified_by_me']={
  'validation': V, 'check': C,
  'what_i_ran': 'tools/evalmutant.sh %s %s: fresh worktree of /repo HEAD; git apply patch; go build; go test ./... twice; demo 3x with the patch (must fail) and 3x without (must pass); then git -C /repo apply patch; ./vcheck.sh %s quick; git -C /repo checkout -- .'%(id,k,id.rstrip("bcdefgh")),
  'caught_by_quick_check': ' exit=1 ' in C,
}
json.dump(m,open('/verif/seeded/%s-%s/meta.json'%(id,k),'w'),indent=1)
PY
 done
done
echo DONE >> /tmp/wt/matrix8.txt

#!/bin/bash
# checkseeded_par.sh [workers] [dir-glob]: the regression of tools/checkseeded.sh (mode own), spread over
# N workers. /repo has one working tree, so each worker gets a scratch worktree of /repo's HEAD and a
# scratch copy of /verif's harness whose go.mod points at that worktree; the change is applied there, the
# quick check of its property is built and run there (VERIF_REPO tells the race attribution where the
# library lives), and the worktree is reset. Nothing is written to /repo or /verif except the result
# lines on stdout:  <change> <check> exit=<n> <first violation key>
# (tools/checkseeded.sh does the same thing in /repo itself, one change at a time.)
export GOFLAGS=-mod=mod GOPROXY=off GOSUMDB=off GOTOOLCHAIN=local
N=${1:-4}; GLOB=${2:-*}
ROOT=${CHECKSEEDED_SCRATCH:-/tmp/rg}
if [ -n "$(git -C /repo status --porcelain)" ]; then echo "/repo working tree not clean" >&2; exit 3; fi
rm -rf $ROOT; mkdir -p $ROOT
ls -d /verif/seeded/$GLOB/ | sort > $ROOT/all.txt
worker() {
  k=$1; W=$ROOT/$k
  git -C /repo worktree add -q --detach $W/repo HEAD || exit 3
  mkdir -p $W/verif/bin $W/verif/evidence $W/verif/replays
  cp -r /verif/harness $W/verif/harness
  cp /verif/vcheck.sh /verif/known_findings.json /verif/properties.jsonl $W/verif/
  sed -i "s#=> /repo#=> $W/repo#" $W/verif/harness/go.mod
  awk -v n=$N -v k=$k 'NR%n==k%n' $ROOT/all.txt | while read d; do
    name=$(basename $d); prop=${name%%-*}; prop=${prop%[bcdefgh]}
    [ -f $d/patch.diff ] || continue
    if [ -f $d/OBSOLETE ]; then echo "$name - obsolete (no longer breaks the property on the repaired tree, see seeded/$name/OBSOLETE)"; continue; fi
    if ! git -C $W/repo apply $d/patch.diff 2>/dev/null; then echo "$name - exit=NOAPPLY"; continue; fi
    out=$(cd $W/verif && VERIF_REPO=$W/repo timeout 900 ./vcheck.sh $prop quick 2>&1); rc=$?
    key=$(echo "$out" | grep -m1 "^  key=" | sed 's/^  key=//; s/ case=.*//' | cut -c1-110)
    [ $rc -eq 3 ] && key=$(echo "$out" | grep -m1 "BROKEN\|BUILD FAILED" | cut -c1-110)
    echo "$name $prop exit=$rc $key"
    git -C $W/repo checkout -- .
  done
  git -C /repo worktree remove --force $W/repo
}
for k in $(seq 1 $N); do worker $k > $ROOT/out.$k.txt 2>$ROOT/err.$k.txt & done
wait
cat $ROOT/out.*.txt | sort
git -C /repo worktree prune
rm -rf $ROOT

#!/bin/bash
# evalmutant.sh <ID> <k> [tier]: validate a sub-agent mutant (/tmp/wt/out-<ID>/patch<k>.diff + demo<k>_test.go)
# in a scratch worktree, then run the property's check against it in /repo and undo it.
ID=$1; K=$2; TIER=${3:-quick}; PROP=${ID%[bcdefgh]}
export GOFLAGS=-mod=mod GOPROXY=off GOSUMDB=off GOTOOLCHAIN=local
OUT=/tmp/wt/out-$ID; P=$OUT/patch$K.diff; D=$OUT/demo${K}_test.go
[ -f "$P" ] || { echo "no patch $P"; exit 2; }
W=/tmp/wt/eval-$ID-$K
git -C /repo worktree remove --force $W 2>/dev/null; rm -rf $W
git -C /repo worktree add -q --detach $W HEAD || exit 2
cd $W
R="$ID/$K:"
if ! git apply --whitespace=nowarn $P 2>/tmp/wt/apply.err; then echo "$R patch does not apply: $(head -2 /tmp/wt/apply.err)"; cd /; git -C /repo worktree remove --force $W; exit 2; fi
go build ./... 2>&1 | tail -3 || true
BUILD=$?
S1=$(go test -vet=off -count=1 ./... 2>&1 | grep -E "^(FAIL|--- FAIL)" | grep -v TestClientResetStream | head -3)
S2=$(go test -vet=off -count=1 ./... 2>&1 | grep -E "^(--- FAIL)" | grep -v TestClientResetStream | head -3)
SUITE=pass; [ -n "$S2" ] && [ -n "$S1" ] && SUITE="FAILS($S2)"
TN=$(python3 -c "import json;print(json.load(open('$OUT/meta$K.json')).get('test_name',''))" 2>/dev/null)
RACE=""; grep -qi "race" $OUT/meta$K.json 2>/dev/null && [ "$PROP" = C15 ] && RACE="-race"
cp $D ./zz_demo_test.go
DW=0; for i in 1 2 3; do timeout 120 go test $RACE -vet=off -count=1 -run "^${TN}" . >/tmp/wt/demo.out 2>&1 || DW=$((DW+1)); done
git apply -R --whitespace=nowarn $P
DN=0; for i in 1 2 3; do timeout 120 go test $RACE -vet=off -count=1 -run "^${TN}" . >/tmp/wt/demo2.out 2>&1 || DN=$((DN+1)); done
cd /; git -C /repo worktree remove --force $W
echo "$R suite_with_mutant=$SUITE demo_fails_with=$DW/3 demo_fails_without=$DN/3 test=$TN"
# now the check
cd /verif
cp evidence/$PROP.json /tmp/wt/evid-$ID.json 2>/dev/null
git -C /repo apply --whitespace=nowarn $P || { echo "$R cannot apply to /repo"; exit 2; }
timeout 900 ./vcheck.sh $PROP $TIER > /tmp/wt/check-$ID-$K.out 2>&1; RC=$?
git -C /repo checkout -- .
./vcheck.sh build >/dev/null 2>&1   # never leave a binary built from a mutated tree behind
cp /tmp/wt/evid-$ID.json evidence/$PROP.json 2>/dev/null
echo "$R check($TIER) exit=$RC $(grep -c '^VIOLATION' /tmp/wt/check-$ID-$K.out) violation lines; first: $(grep -A1 '^VIOLATION' /tmp/wt/check-$ID-$K.out | grep 'key=' | head -1 | cut -c1-220)"
[ $RC -eq 3 ] && grep -E "BROKEN|BUILD FAILED" /tmp/wt/check-$ID-$K.out | head -3 | cut -c1-250
exit 0

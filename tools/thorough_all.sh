#!/bin/bash
# thorough_all.sh: run every thorough tier once (seed from VERIF_SEED), keep its evidence under evidence/thorough/ and
# put the quick evidence back in place.
SAVE=$(mktemp -d /tmp/thorough-evidence.XXXXXX)
cd /verif
./vcheck.sh build >/dev/null 2>&1
for id in C01 C02 C03 C04 C05 C06 C07 C08 C09 C10 C11 C12 C13 C14 C15 C16 C17 C18 C19 C20; do
  cp evidence/$id.json $SAVE/evq-$id.json
  s=$(date +%s)
  out=$(timeout 5400 ./vcheck.sh $id thorough 2>&1); rc=$?
  e=$(date +%s)
  echo "$id thorough exit=$rc secs=$((e-s)) $(echo "$out" | grep -E "^$id thorough" | cut -c1-200)"
  [ $rc -ne 0 ] && echo "$out" | grep -E "VIOLATION|key=|BROKEN" | head -5 | cut -c1-300
  cp evidence/$id.json evidence/thorough/$id.json
  cp $SAVE/evq-$id.json evidence/$id.json
done
echo ALLDONE
rm -rf $SAVE

#!/bin/bash
# checkseeded.sh [all|own] [dir-glob]: regression of the checks against the seeded changes in /verif/seeded.
#   own (default): each change is run against the quick check of its own property
#   all:           each change is run against the quick checks of all twenty properties (cross matrix)
# Each change is applied to /repo's working tree, the check is run (it rebuilds from the working tree),
# and the change is undone straight afterwards. Evidence files are restored; bin/ is rebuilt at the end.
# Output: one line per (change, check) on stdout:  <change> <check> exit=<n> <first violation key>
export GOFLAGS=-mod=mod GOPROXY=off GOSUMDB=off GOTOOLCHAIN=local
MODE=${1:-own}; GLOB=${2:-*}
cd /verif || exit 3
if [ -n "$(git -C /repo status --porcelain)" ]; then echo "/repo working tree not clean" >&2; exit 3; fi
SAVE=$(mktemp -d /tmp/seeded-evidence.XXXXXX); cp evidence/*.json $SAVE/
for d in seeded/$GLOB/; do
  name=$(basename $d); prop=${name%%-*}; prop=${prop%[bcdefgh]}
  [ -f $d/patch.diff ] || continue
  if [ -f $d/OBSOLETE ]; then echo "$name - obsolete (no longer breaks the property on the repaired tree, see $d/OBSOLETE)"; continue; fi
  if ! git -C /repo apply /verif/$d/patch.diff 2>/dev/null; then echo "$name - exit=NOAPPLY"; continue; fi
  if [ "$MODE" = all ]; then checks=$(seq -f "C%02g" 1 20); else checks=$prop; fi
  for c in $checks; do
    out=$(timeout 900 ./vcheck.sh $c quick 2>&1); rc=$?
    key=$(echo "$out" | grep -m1 "^  key=" | sed 's/^  key=//; s/ case=.*//' | cut -c1-110)
    [ $rc -eq 3 ] && key=$(echo "$out" | grep -m1 "BROKEN\|BUILD FAILED" | cut -c1-110)
    echo "$name $c exit=$rc $key"
  done
  git -C /repo checkout -- .
done
cp $SAVE/*.json evidence/; rm -rf $SAVE
./vcheck.sh build >/dev/null 2>&1

#!/usr/bin/env python3
"""Regenerates /verif/MANIFEST.json from the table below."""
import json, os, subprocess
V = os.path.dirname(os.path.dirname(os.path.abspath(__file__)))

# id -> (level category, technique, level text, level note, design ref)
CHECKS = {
 "C01": ("exploration", "runtime monitor: tag-joined pairing oracle over client/handler records + wire tap, stress over topologies/schedules, final-state (stop-the-world snapshot) hang detection",
         "Exactly-once / byte-equality pairing oracle over every unary call of seeded concurrent workloads (1..64 callers on one connection, replies forced to overtake requests, 3 topologies, serialising and by-reference links, GOMAXPROCS 1/4/16, jittered hook points). Held on the executions produced; schedules are sampled, not enumerated.",
         "Trusts the harness link (reliable, FIFO), grpc's proto codec, and the Go runtime's goroutine snapshot for hang verdicts.", "DESIGN.md 2/C01"),
 "C11": ("exploration", "runtime monitor: probe-completion oracle at provably final states (stop-the-world goroutine snapshots), rendezvous hooks forcing the unregister/teardown-vs-read-loop interleavings",
         "Every (k,n) handler-returns-early and every m-unread caller-cancel abandonment, per stream kind and load level, followed by a no-deadline probe and a manual-deadline probe; the hang verdict is taken only in a state where every goroutine is durably blocked, so it is sound; interleavings of read loop vs. handler exit are forced by rendezvous at the unregistration/teardown hooks plus jitter, not enumerated.",
         "Trusts the final-state detector (Go runtime goroutine states) and the harness link; HOL blocking by a live, slow consumer is by design and never produced by the generators.", "DESIGN.md 2/C11"),
 "C02": ("exploration", "runtime monitor: per-stream sequence/end-of-stream oracle over API-boundary records of both sides, rendezvous hooks forcing the done-check/blocking-step windows of RecvMsg, SendMsg and CloseSend",
         "Element-wise comparison of what each side received with what the other sent, plus exact terminal results (io.EOF for the handler after half-close, io.EOF for the caller iff the handler returned nil), over 9 admissible program-pair families, counts 0..200, 1..32 streams per connection and 3 topologies; the race window the property names is produced deterministically in a third of the cases by parking the operation at a hook until the stream has been torn down.",
         "Trusts the harness link and grpc's codec; program pairs are restricted to ones that cannot deadlock by construction on a connection without per-stream flow control (see DESIGN.md section 7).", "DESIGN.md 2/C02"),
 "C03": ("exploration", "runtime monitor: independent expected-status oracle (code, message, details) against the caller-observed outcome; rendezvous hook holding the trailer in the server writer while late bodies race it; scripted foreign peer",
         "All 16 non-OK codes x error kinds x message classes x 0..3 details x positions x 4 RPC kinds through real client and server, plus the handler-fails-while-caller-sends race forced at the writer hook and 9 foreign reply shapes (explicit OK, status without metadata, resets). Success must coincide exactly with a nil handler error.",
         "Expected status is computed by the harness from the handler's error value per the property text (wrapped errors may carry inner or outer message).", "DESIGN.md 2/C03"),
 "C09": ("fault_enumeration", "fault injection in the harness transport at every response-prefix position x write-side mode, rendezvous hook for the check-then-register window, final-state hang detection, tap-based 'complete response delivered' oracle",
         "Per scenario the read failure is placed after every prefix 0..L of the response sequence (exhaustive per scenario), with the write side failing or discarding, with calls started before, inside the check/register window (forced by rendezvous) and after the failure. Each call must have returned at the next final state; success is accepted only if the tap shows its complete response read before the failure and the result is exact.",
         "Schedules between positions are sampled (GOMAXPROCS, jitter); final-state detector and harness link are trusted.", "DESIGN.md 2/C09"),
 "C10": ("fault_enumeration", "end-cause injection (read failure, write failure, Stop) at every trace position against a real server driven by a scripted client; handler gates order handler exit vs. Serve return; contexts sampled at Serve's return; goroutine-leak and registry check at a provably final state",
         "For every scenario (0..8 unary + 0..8 streaming handlers parked in receive / send / on their context) each end cause is placed at every position. Serve must have returned at the next final state; a streaming handler exiting after Serve's return, a live handler context at Serve's return, a registered stream or any goroutine with goat frames left after the handlers finished is a violation.",
         "Positions are exhaustive per scenario, schedules sampled; goroutine attribution by stack frames of the Go runtime snapshot.", "DESIGN.md 2/C10"),
 "C14": ("exploration", "runtime invariant monitor at provably quiescent points over long mixed histories: client registry size, server stream registry size (accessors under the code's own locks) and goat-goroutine count vs. idle level",
         "Long histories (quick ~10^4, thorough ~5x10^5 RPCs) of all four kinds and 11 outcome classes incl. cancel/deadline at varying points, server resets and opens failing in the transport write, up to 32 at a time on one connection; after every round the state is sampled at a stop-the-world final state and must equal the idle level.",
         "Registry sizes come from verif-tagged accessors; goroutine attribution by stack frames; outcomes are sampled, not enumerated.", "DESIGN.md 2/C14"),
 "C08": ("exploration", "differential runtime check of the real parser (via verif accessor) against a big.Int reference over an exhaustive small-value grid + boundary grid + seeded random/mutated strings; end-to-end and raw-header deadline monitors on recorded timestamps",
         "Parser: all 1..4-digit values per unit exhaustively, boundary values for 1..8 digits, overflow thresholds, over-long and ~640 malformed strings, up to 10^7 random values, each compared with an exact saturating reference. End to end and raw-header runs through the real client/server check the handler's deadline against brackets that contain the measured transit time, so load cannot falsify them.",
         "Over-long (9+ digit) values may be ignored or read exactly (goat's own client needs 11 digits for 10^4 h); timestamps from the process's monotonic clock.", "DESIGN.md 2/C08"),
 "C12": ("exploration", "bounded-exhaustive hostile input generation from a scripted peer against the real server in child processes (crash = violation with the exact sequence from a cursor file), probe-after-sequence liveness oracle at final states, reference dispatcher for handler invocations and resets",
         "Every envelope sequence up to length 3 (quick) / 4 (thorough) over 25 shapes x 2 ids, plus field-level mutations and long random sequences, each against a fresh server connection: the process must survive, a following valid probe must be answered correctly, handler invocations and resets must match a reference dispatcher where timing-independent, and Serve must return when the connection ends.",
         "Exhaustive over the stated alphabet and lengths only; within a sequence the schedule is whatever the runtime produced.", "DESIGN.md 2/C12"),
 "C13": ("exploration", "bounded-exhaustive hostile response generation from a scripted server against the real client in child processes (crash = violation with exact sequence), termination oracle at final states after the connection is closed, provenance oracle for every returned message",
         "Every response sequence up to length 3/4 (2/3 for the other configurations) over 20 shapes x {call A, call B, unknown id}, with and without a stats handler, for unary+stream and stream+stream pairings, then the connection is closed: no crash, every operation (Invoke, Header, receive loop, Trailer - each in its own goroutine) has returned at the final state, every returned message is carried in order by an envelope addressed to that call, success only with data / a successful end addressed to the call.",
         "Exhaustive over the stated alphabet and lengths only.", "DESIGN.md 2/C13"),
 "C07": ("fault_enumeration", "cancellation / manual-deadline expiry injected by a tap callback after every prefix of the wire trace; monitors on later operations, resets on the wire, handler context at provably final states, probe call",
         "For 7 program pairs over the 3 streaming kinds (incl. 0..5 responses queued unread, with and without other calls) the cancel or deadline expiry is placed at every position of the wire trace. At final states: all operations returned, later receives report Canceled/DeadlineExceeded, later sends fail, exactly one reset unless the trailer was already delivered, handler not left running with a live context, a probe call succeeds.",
         "Positions exhaustive per scenario; schedules sampled; deadlines are harness-fired (manual context), not wall-clock.", "DESIGN.md 2/C07"),
 "C05": ("exploration", "exhaustive enumeration of envelope interleavings (multiset permutations) driven by scripted peers against the real client and the real server, per-call observation oracle; wire-tap id-uniqueness monitor over long histories with barrier-released callers",
         "Every order-preserving merge of the per-call scripts of k<=3 (thorough: also 4) concurrent unary/stream calls is executed on a fresh connection in both directions, and each call or handler must observe exactly its own messages, header, trailer and status. Id allocation is monitored on the wire over 10^4 (quick) / 10^5 (thorough) calls with 64 callers starting together.",
         "Exhaustive for the listed script configurations only; goroutine schedules inside the client/server are sampled.", "DESIGN.md 2/C05"),
 "C06": ("exploration", "online trace checking: per-(id, direction) protocol automata over the wire-tap logs of the re-run C01/C02/C03/C07/C11 workloads plus a directed rendezvous family (send parked across a cancel on a transport that does not consult the context)",
         "Every client link history produced by a fixed-seed sample of the other checks' workloads (early returns, cancellations, errors, resets included) is projected per id and direction and must be accepted by automata transcribed from the README and the statement, including the end-of-history rule for trailers; the one ordering the statement singles out on the client side (nothing after the reset) is also forced deterministically.",
         "Histories are those the workloads produced; the automata are my transcription of README.md.", "DESIGN.md 2/C06"),
 "C04": ("exploration", "runtime monitor comparing observed metadata (handler context, Header(), Trailer(), client stats InHeader, wire tap for unary trailers) with an independent normaliser over seeded metadata sets and all ways of setting them",
         "Seeded metadata sets (mixed-case keys over the gRPC alphabet, 1..4 values, arbitrary bytes under -bin incl. NUL/0xFF/empty) attached via outgoing context and client interceptors, and by handlers via repeated SetHeader, SendHeader, header-with-first-message, header-with-trailer, repeated SetTrailer and grpc.SetHeader/SetTrailer, for all four RPC kinds with succeeding and failing handlers; every key, per-key order and byte must match.",
         "Key sets never contain two keys equal up to case; unary response trailers are read from the wire because the client API cannot expose them.", "DESIGN.md 2/C04"),
 "C20": ("exploration", "recording interceptors (enter/exit trace + visible edits of context metadata, request, reply, error) and recording stats handlers (fresh token per TagRPC) around real RPCs of every kind and outcome; trace/count oracle",
         "Server chains of length 1..6 (chained and single options), an optional client interceptor, 1..3 stats handlers per side, 4 RPC kinds x 7 outcomes incl. cancel, manual deadline, transport failure, failed open and a call on an already failed connection: exactly-once and nesting order of interceptors, propagation of each edit to the handler and the caller, exactly one Begin (first) and one End per RPC and handler with End.Error nil iff success on that side, every event tagged with the TagRPC context, one ConnBegin/ConnEnd per served connection.",
         "goat has a single client interceptor slot, so client chains >1 are not goat code; one RPC per case.", "DESIGN.md 2/C20"),
 "C16": ("exploration", "runtime monitor: per-(source,destination) sequence equality on unique envelope ids at scripted peers around a real Proxy (credit-bounded), proto.Equal modulo routing fields, drop-counter hook; RPC workloads of C01/C02 through client-proxy-Demux-Serve; burst family with loss-accounting oracle",
         "Uniquely numbered envelopes from 1..8 attached peers to attached, dial-on-demand, aliased, blocked and unknown destinations under 4 rewriting functions: exactly-once, in-order, unaltered (modulo ProxyRecord/ProxyNext/rewritten destination) delivery to the right peer with zero drops while <=12 are outstanding per destination; C01/C02 workloads through the proxy topology must pass their own oracles. Above the buffer, loss must be exactly what the drop hook counted (known finding F12), never reordering or duplication.",
         "Real-time order between different sources is not constrained (not promised by the proxy); the burst finding is recorded in known_findings.json.", "DESIGN.md 2/C16"),
 "C17": ("fault_enumeration", "scripted hostile/failing peers around a real Proxy in one-case child processes; crash = violation; delivery-progress oracle at final states; table/callback accessors; goroutine-leak check after context cancellation placed after every step",
         "Spoofed / empty / absent sources never forwarded and never fatal; envelope-by-envelope traffic between two healthy peers keeps arriving while a third peer is a stuck writer, failing reader, failing writer, undialable or slow to dial; failed connections are reported and removed without touching a newer connection under the same name (re-attach before/after the failure); after cancelling the context at each step Serve has returned and no Proxy/proxyClient goroutine is left at the final state.",
         "Cancellation positions are per scripted step; goroutine attribution by stack frames; all harness transports honour contexts.", "DESIGN.md 2/C17"),
 "C18": ("fault_enumeration", "scripted shared transport around a real Demux: per-key sequence oracle on unique ids, announcement count, shared-writer equality; Cancel/Stop injected after each step and, by rendezvous hook, exactly between lookup and hand-off, concurrent with readers and a hammering writer; child-process crash attribution; final-state termination oracle; RPC workloads through fan-in + Demux + Serve",
         "Per key the logical connection reads exactly the fed subsequence in order, is announced once per creation, and every envelope written on it reaches the shared transport unchanged exactly once; Cancel(key) and Stop at every step (also inside the hand-off window, also under a concurrent writer) must neither crash the process nor leave a Read/Write/Run blocked at the final state; C01/C02 workloads through several logical clients and one Server must pass their own oracles.",
         "Consumers always drain (a consumer that never reads blocks Run by design, except in the directed Stop case); envelopes in flight at a Cancel may be lost with the cancelled connection.", "DESIGN.md 2/C18"),
 "C19": ("exploration", "round-trip equality monitors over a real loopback WebSocket, the channel transport and HTTP (two instances over loopback); differential raw-input check against a reference proto.Unmarshal; ServeHTTP driven through httptest under recover; clockwork fake clock placing the idle tick around an in-progress delivery with a rendezvous hook",
         "Every generated envelope value (all 32 presence combinations, ids across uint64, bodies to 1 MiB, non-ASCII, repeated fields) read equal and in order on each shipped transport; non-envelope input (text frames, truncated/bit-flipped/random bytes, body-less / header-less / source-less / unmappable HTTP requests) rejected and never delivered; blocked Read/Write return after cancel; the HTTP idle cleaner never panics a concurrent ServeHTTP and fails idle readers.",
         "Kernel I/O paths use wall-clock watchdogs (WebSocket expiry = inconclusive); channel-transport context checks are decided at final states.", "DESIGN.md 2/C19"),
 "C15": ("exploration", "Go race detector (-race build of the harness + library) over the other checks' workloads with GOMAXPROCS 1/2/4/16 and seeded yields at the instrumented points; reports parsed from GORACE log files, attributed by owner frame and de-duplicated",
         "The quick case lists of 15 other checks (concurrent calls on one connection, sender+receiver goroutines per stream, Header/Trailer concurrent with sends, cancellation, Stop and transport failure concurrent with traffic, proxy/demux with many peers, HTTP cleaner) run under the race detector; any report whose accesses are made by library code is a violation. A report involving harness code fails the run as broken instead of being filtered away.",
         "Only executed access pairs inside the detector's history window are seen; a clean run is not race freedom. Evidence lists raw / goat / harness report counts and hook coverage.", "DESIGN.md 2/C15"),
}

# families added after the two seeded-mutant waves (DESIGN.md section 9), appended to the level text
EXTRA = {
 "C01": "Also: callers cancelled while blocked behind a fully gated server plus late callers; one-shot transport write faults; calls whose reply was read and dispatched before the connection ended while the caller was still inside its transport write (must still get the reply); and the shipped websocket transport over loopback sockets whose writes stall half-way (2..64 callers, payloads around the 4 KiB frame chunk; wall-clock expiry there is inconclusive). Third wave: every 8th case first abandons a streaming call on the same connection.",
 "C02": "Also: ping-pong bidi streams with unary calls alongside over the shipped websocket transport on loopback sockets with stalling writes (every echo in order, io.EOF at the end; wall-clock expiry inconclusive). Third wave: complete-then-connection-end cases (message and trailer read, connection ends, then the caller receives) and streams over the shipped HTTP transport with a slow receiver on a fake clock.",
 "C03": "Also: io.EOF and wrapped io.EOF as handler errors; connection loss (io.EOF, wrapped io.EOF, custom error, context.Canceled as the read error) before the trailer arrives (must not look like success) and after the complete response was read (status and messages must survive). Third wave: foreign resets that are untyped or lower-case; half of the matrix behind pass-through (plain / chained) server interceptors.",
 "C04": "Also: a handler whose first SendMsg fails to marshal before it sets more headers and a trailer. Third wave: one directed RPC per case with SendHeader stalled behind the busy connection writer while a second goroutine of the handler calls SetHeader.",
 "C05": "Also: 2-5 KiB recognisable payloads and one-shot write faults in the id histories; unary calls and echo streams at once over the shipped websocket transport (isolation oracle only: foreign content, handler run twice, request nobody sent). Third wave: every 4th id history through the proxy; writes reported failed although delivered at the end of each history.",
 "C06": "Also two more rules (a unary request is answered at most once and only after it was sent, never left unanswered on a live connection; a client never resets an id it has not opened) and directed families: send parked across a cancel incl. at the transport's Write entry, unary deadline firing inside the handler, cancel during the open write. Third wave: directed family in which the client's reset reaches the server after the handler returned (trailer held in the writer).",
 "C08": "Also: two grpc-timeout headers on one request (malformed first / valid first).",
 "C09": "Also: the read error's kind varies (io.EOF, wrapped io.EOF, custom, context.Canceled); open and half-close errors are classified separately from end-of-stream.",
 "C10": "Also: unary handlers that complete before the end cause, and up to 12 unary requests (more than the 8 workers) so that requests are still queued at the end. Third wave: scenarios whose unary requests all carry one id (different sources); write failures whose error wraps context.Canceled.",
 "C11": "Also, against a scripted server: the caller is cancelled while its own send is blocked by transport back-pressure with 3..6 responses unread; the first response is undecodable, the caller stops without cancelling and more responses follow. And over the shipped websocket transport: a caller gives up (cancel / deadline / stream send) while its 64 KiB frame is half-way onto the socket, with 2 calls in flight and a probe afterwards. Third wave: a stream open reported failed by the transport although delivered, the handler answering 2..5 messages to the abandoned id; websocket hangs are now verdicts at final states of the socket scenario.",
 "C12": "Also: half-duplex peers that write the whole hostile sequence plus the probe before reading anything (cap-0 link).",
 "C13": "Also: undecodable -bin trailer metadata together with a non-OK status. Third wave: io.EOF as the closing read error for half of the sequences; a fifth configuration whose stream caller never receives, cancels after the first envelope and never looks again.",
 "C14": "Also: a caller that cancels with responses unread and never touches the stream again; every 10th history runs against a scripted server (cancel/deadline while the send is blocked with 3..6 responses unread; undecodable first response), sampled the same way. Third wave: outcome 'send of an unencodable message with a live context' and a send failing once in the transport write.",
 "C15": "Also dedicated race workloads: every accessor pair the API allows concurrently on one stream; peers attached to a running proxy by goroutines of their own while other connections fail, are dialled or forward; one stream aborted from its sending and receiving goroutine at once; websocket unary and stream workloads. Third wave: a transport's read of the envelope inside a library-called Write is attributed to the library caller.",
 "C16": "Also: a dial that fails once and later succeeds (redial); a peer re-attached before its old connection fails, and a dialled connection failing while the serve loop is busy (refail). Third wave: write-only fault reported while the serve loop is busy; re-attach while the old connection stays open.",
 "C17": "Also: spoofed envelopes that already carry a ProxyRecord; context cancellation while the serve loop is held inside the intercepter or the disconnect callback. Third wave: the disconnect callback itself re-attaches the failed peer.",
 "C18": "Also: writes started after Cancel(key) returned must fail; an envelope fed after Cancel returned must reach the (new) logical connection; a reader that gives up (context) and retries must not lose an envelope. Third wave: after Cancel(key) the run loop must keep taking envelopes from the shared transport.",
 "C19": "Also: text frames whose payload is a valid encoding; 1 MiB HTTP bodies, where an envelope whose Write returned nil and is not delivered within 15 s is a violation. Third wave: a websocket Write cancelled half-way must return, later Writes must return and every accepted envelope arrives in order (hang = violation only at a final state of the socket scenario).",
 "C20": "Also: outcomes 'cancel with a response uncollected' and 'handler fails with io.EOF'; ConnBegin/ConnEnd counts per Serve for every end cause, with unary backlog.",
 "C07": "Also. Third wave: over the shipped websocket transport, cancel / deadline while a send of the stream is half-way onto the socket, with final-state detection over the loopback sockets (nothing in flight, every goroutine blocked).",
}
NOT_YET = "check not built yet in this round (runtime-monitoring design in DESIGN.md section 2); will be claimed once its monitor exists"

def main():
    props = [json.loads(l) for l in open(os.path.join(V, "properties.jsonl"))]
    hooks_commits = subprocess.run(["git", "-C", "/repo", "log", "--format=%H", "--grep=^verif hooks"], capture_output=True, text=True).stdout.split()
    m = {
        "version": 1,
        "setup_cmd": "./vcheck.sh build",
        "hooks": {
            "guard": "verif",
            "enable": "go build -tags verif (the harness module replaces github.com/avos-io/goat with /repo, so every check rebuilds the working tree with the tag on)",
            "baseline_off_cmd": "cd /repo && GOFLAGS=-mod=mod GOPROXY=off GOSUMDB=off GOTOOLCHAIN=local go test -json -vet=off -count=1 -timeout 25m ./...",
            "source_commits": hooks_commits,
            "add_only": True,
        },
        "engines": [{"name": "vcheck", "path": "harness/cmd/vcheck", "serves_properties": sorted(CHECKS),
                     "kind_free_text": "Go harness: parent driver + child worker processes running the real goat code (built with -tags verif, -race for C15) under seeded workloads with monitors, fault injection in harness-owned transports, rendezvous hooks and stop-the-world final-state detection"}],
        "checks": [],
        "not_applicable": [],
        "notes": "All checks: ./vcheck.sh <ID> <quick|thorough>; VERIF_SEED selects the seed. Exit 0 held / 1 VIOLATION / 3 broken-or-inconclusive run. Known findings in known_findings.json.",
    }
    for p in props:
        pid = p["id"]
        if pid in CHECKS:
            cat, tech, text, note, ref = CHECKS[pid]
            if pid in EXTRA:
                text = text + " " + EXTRA[pid]
            m["checks"].append({
                "property_id": pid,
                "quick_cmd": "./vcheck.sh %s quick" % pid,
                "thorough_cmd": "./vcheck.sh %s thorough" % pid,
                "evidence_file": "/verif/evidence/%s.json" % pid,
                "replay_cmd_template": "./vcheck.sh replay {path}",
                "engine": "vcheck",
                "level_claimed": {"category": cat, "text": text, "design_ref": ref},
                "level_note": note,
                "technique": tech,
            })
        else:
            m["not_applicable"].append({"property_id": pid, "reason": NOT_YET})
    json.dump(m, open(os.path.join(V, "MANIFEST.json"), "w"), indent=1)
    print("checks:", len(m["checks"]), "not_applicable:", len(m["not_applicable"]))

main()
